//! VERIFICATION MODEL of `lorawan::default_crypto` (see /verif/DESIGN.md 2.4).
//!
//! Swapped in for the real module *only in the scratch copy* and only under `cfg(kani)`.
//! AES-128 and AES-CMAC are modelled as uninterpreted functions: every call returns fresh
//! nondeterministic bytes, is recorded in a log, and functional consistency (same key, same
//! input => same output; optionally D(E(x)) = x) is imposed by Ackermann constraints against the
//! earlier log entries.  Harnesses read the log to state *which* calls must have happened with
//! *which* arguments.  Sound for framing / key-selection / counter properties, silent about the
//! primitives themselves.
#![allow(static_mut_refs, dead_code, unused)]
use super::keys::*;

pub mod model {
    pub const ENC_MAX: usize = 20;
    pub const MIC_MAX: usize = 4;
    pub const FULL_MAX: usize = 40;

    #[derive(Clone, Copy)]
    pub struct Enc {
        pub key: u128,
        pub input: u128,
        pub output: u128,
        pub decrypt: bool,
    }
    #[derive(Clone, Copy)]
    pub struct Mic {
        pub key: u128,
        pub b0: u128,
        pub b0_len: usize,
        pub len: usize,
        /// data[PROBE.v] (0 when PROBE.v >= len)
        pub probe: u8,
        pub out: [u8; 4],
        pub full: [u8; FULL_MAX],
    }
    const ENC0: Enc = Enc { key: 0, input: 0, output: 0, decrypt: false };
    const MIC0: Mic = Mic { key: 0, b0: 0, b0_len: 0, len: 0, probe: 0, out: [0; 4], full: [0; FULL_MAX] };

    /// Every harness static carries a unique tag: Kani resolves a *constant* whose bytes equal a
    /// static's initial bytes to that static (rustc interns allocations by content), so writing to a
    /// `static mut FLAG: bool = false` silently changed constants such as `DR::_0` in the code under
    /// test (found on macs_r0_linkadr2, see DESIGN 9.4).  Unique initial content rules this out.
    #[repr(C)]
    pub struct Uq<T> {
        pub magic: u64,
        pub v: T,
    }
    pub static mut ENC: Uq<[Enc; ENC_MAX]> = Uq { magic: 0x6C727600F4F66290, v: [ENC0; ENC_MAX] };
    pub static mut ENC_N: Uq<usize> = Uq { magic: 0x6C7276003F63416B, v: 0 };
    pub static mut MICS: Uq<[Mic; MIC_MAX]> = Uq { magic: 0x6C7276001060B48F, v: [MIC0; MIC_MAX] };
    pub static mut MIC_N: Uq<usize> = Uq { magic: 0x6C72760092C43213, v: 0 };
    /// universally quantified index at which MIC input data is sampled (set by the harness)
    pub static mut PROBE: Uq<usize> = Uq { magic: 0x6C727600EC08FD4E, v: 0 };
    /// impose D(E(x)) = x and E(D(x)) = x under the same key
    pub static mut INVERSE: Uq<bool> = Uq { magic: 0x6C7276001413CA17, v: false };
    /// keep a full copy of MIC data (<= FULL_MAX bytes) and impose consistency of MIC calls
    pub static mut MIC_FULL: Uq<bool> = Uq { magic: 0x6C7276001C3D5F77, v: false };
    /// number of earlier entries against which consistency is imposed (keeps formulas small)
    pub static mut CONSISTENT: Uq<bool> = Uq { magic: 0x6C7276000D936FE6, v: true };

    pub fn reset(probe: usize) {
        unsafe {
            ENC_N.v = 0;
            MIC_N.v = 0;
            PROBE.v = probe;
        }
    }

    #[inline(never)]
    pub fn pack(b: &[u8]) -> u128 {
        (b[0] as u128)
            | (b[1] as u128) << 8
            | (b[2] as u128) << 16
            | (b[3] as u128) << 24
            | (b[4] as u128) << 32
            | (b[5] as u128) << 40
            | (b[6] as u128) << 48
            | (b[7] as u128) << 56
            | (b[8] as u128) << 64
            | (b[9] as u128) << 72
            | (b[10] as u128) << 80
            | (b[11] as u128) << 88
            | (b[12] as u128) << 96
            | (b[13] as u128) << 104
            | (b[14] as u128) << 112
            | (b[15] as u128) << 120
    }

    #[inline(never)]
    pub fn unpack(v: u128, b: &mut [u8]) {
        b[0] = v as u8;
        b[1] = (v >> 8) as u8;
        b[2] = (v >> 16) as u8;
        b[3] = (v >> 24) as u8;
        b[4] = (v >> 32) as u8;
        b[5] = (v >> 40) as u8;
        b[6] = (v >> 48) as u8;
        b[7] = (v >> 56) as u8;
        b[8] = (v >> 64) as u8;
        b[9] = (v >> 72) as u8;
        b[10] = (v >> 80) as u8;
        b[11] = (v >> 88) as u8;
        b[12] = (v >> 96) as u8;
        b[13] = (v >> 104) as u8;
        b[14] = (v >> 112) as u8;
        b[15] = (v >> 120) as u8;
    }

    /// byte `i` (little-endian position) of a packed block
    pub fn byte(v: u128, i: usize) -> u8 {
        (v >> (8 * (i as u32 & 15))) as u8
    }

    pub fn block(key: u128, blk: &mut [u8], decrypt: bool) {
        assert!(blk.len() == 16, "crypto block must be 16 bytes");
        let input = pack(blk);
        let output: u128 = kani::any();
        unsafe {
            let n = ENC_N.v;
            assert!(n < ENC_MAX, "crypto model: block log full");
            if CONSISTENT.v {
                let mut i = 0;
                while i < ENC_MAX {
                    if i < n {
                        let p = ENC.v[i];
                        if p.key == key {
                            if p.decrypt == decrypt {
                                if p.input == input {
                                    kani::assume(output == p.output);
                                }
                            } else if INVERSE.v {
                                if p.output == input {
                                    kani::assume(output == p.input);
                                }
                            }
                        }
                    }
                    i += 1;
                }
            }
            ENC.v[n] = Enc { key, input, output, decrypt };
            ENC_N.v = n + 1;
        }
        unpack(output, blk);
    }

    pub fn mic(key: u128, b0: &[u8], data: &[u8]) -> [u8; 4] {
        let out: [u8; 4] = kani::any();
        unsafe {
            let n = MIC_N.v;
            assert!(n < MIC_MAX, "crypto model: mic log full");
            assert!(b0.len() == 0 || b0.len() == 16, "B0 must be empty or one block");
            let mut e = Mic {
                key,
                b0: if b0.len() == 16 { pack(b0) } else { 0 },
                b0_len: b0.len(),
                len: data.len(),
                probe: if PROBE.v < data.len() { data[PROBE.v] } else { 0 },
                out,
                full: [0; FULL_MAX],
            };
            if MIC_FULL.v {
                assert!(data.len() <= FULL_MAX, "crypto model: MIC data longer than FULL_MAX");
                let mut i = 0;
                while i < FULL_MAX {
                    if i < data.len() {
                        e.full[i] = data[i];
                    }
                    i += 1;
                }
                let mut j = 0;
                while j < MIC_MAX {
                    if j < n {
                        let p = &MICS.v[j];
                        if p.key == key && p.b0 == e.b0 && p.b0_len == e.b0_len && p.len == e.len {
                            let mut same = true;
                            let mut i = 0;
                            while i < FULL_MAX {
                                if p.full[i] != e.full[i] {
                                    same = false;
                                }
                                i += 1;
                            }
                            if same {
                                kani::assume(out[0] == p.out[0] && out[1] == p.out[1]
                                    && out[2] == p.out[2] && out[3] == p.out[3]);
                            }
                        }
                    }
                    j += 1;
                }
            }
            MICS.v[n] = e;
            MIC_N.v = n + 1;
        }
        out
    }
}

/// Model of the device-side crypto: remembers the key it was constructed with.
#[derive(Clone)]
pub struct DefaultCrypto {
    pub key: u128,
}

impl DefaultCrypto {
    pub fn new(key: &AES128) -> Self {
        Self { key: model::pack(&key.0) }
    }
}

impl From<AES128> for DefaultCrypto {
    fn from(key: AES128) -> Self {
        Self::new(&key)
    }
}

impl core::fmt::Debug for DefaultCrypto {
    fn fmt(&self, f: &mut core::fmt::Formatter<'_>) -> core::fmt::Result {
        f.write_str("DefaultCrypto { .. }")
    }
}

impl Crypto for DefaultCrypto {
    fn encrypt_block(&self, block: &mut [u8]) {
        model::block(self.key, block, false)
    }
    fn calculate_mic(&self, b0: &[u8], data: &[u8]) -> [u8; 4] {
        model::mic(self.key, b0, data)
    }
}

#[derive(Clone)]
pub struct DefaultNetworkCrypto {
    pub key: u128,
}

impl DefaultNetworkCrypto {
    pub fn new(key: &AES128) -> Self {
        Self { key: model::pack(&key.0) }
    }
}

impl From<AES128> for DefaultNetworkCrypto {
    fn from(key: AES128) -> Self {
        Self::new(&key)
    }
}

impl core::fmt::Debug for DefaultNetworkCrypto {
    fn fmt(&self, f: &mut core::fmt::Formatter<'_>) -> core::fmt::Result {
        f.write_str("DefaultNetworkCrypto { .. }")
    }
}

impl Crypto for DefaultNetworkCrypto {
    fn encrypt_block(&self, block: &mut [u8]) {
        model::block(self.key, block, false)
    }
    fn calculate_mic(&self, b0: &[u8], data: &[u8]) -> [u8; 4] {
        model::mic(self.key, b0, data)
    }
}

impl NetworkCrypto for DefaultNetworkCrypto {
    fn decrypt_block(&self, block: &mut [u8]) {
        model::block(self.key, block, true)
    }
}
