// F-C14-2 demonstration: the trait-level chip model of /verif/harness/lora-phy/lora_h.rs, natively
// (kani::any() replaced by constants), under the real LoRa state machine.
use super::*;
use core::future::Future;
use core::pin::pin;
use core::task::{Context, Poll, Waker};

struct NoDelay;
impl DelayNs for NoDelay {
    async fn delay_ns(&mut self, _ns: u32) {}
}
fn block_on<F: Future>(f: F) -> F::Output {
    let mut f = pin!(f);
    let w = Waker::noop();
    let mut cx = Context::from_waker(&w);
    for _ in 0..10_000 {
        if let Poll::Ready(v) = f.as_mut().poll(&mut cx) {
            return v;
        }
    }
    panic!("future did not complete");
}

#[derive(Clone, Copy, PartialEq, Eq)]
pub(crate) enum ChipMode {
    Sleep,
    Standby,
    Tx,
    Rx,
    Cad,
}

/// Trait-level chip model (DESIGN 2.4).  State lives in a static (R4).
pub(crate) struct Chip {
    pub mode: ChipMode,
    /// receive duty cycle: the chip may be in its sleep phase
    pub duty_sleeping: bool,
    // programmed since the last cold start / reset
    pub init: bool,     // packet type, sync word, regulator/TCXO, buffer bases (init_lora)
    pub txpower: bool,  // PA config / ramp
    pub irq: bool,      // IRQ mask / DIO mapping
    pub modulation: bool,
    pub packet: bool,
    pub freq: bool,
    pub payload: bool,
    // ghost verdict flags
    pub asleep_cmd: bool, // a command other than the wake-up reached the chip while it slept
    pub dep_missing: bool, // TX/RX/CAD started with something it depends on not programmed
    // environment
    pub calls: usize,
    pub fail_at: usize,
    /// a second, independent fault position (a fault while recovering from the first)
    pub fail_at2: usize,
    pub irq_script: [u8; 3], // 0: Ok(None) 1: Ok(Some(PreambleReceived)) 2: Ok(Some(Done)) 3..: Err(timeout)
    pub irq_pos: usize,
    pub rx_continuous: bool,
    /// the call under test is LoRa::listen (RSSI measurement without packet reception)
    pub listen_only: bool,
}
pub(crate) static mut CHIP: Chip = Chip {
    mode: ChipMode::Sleep, duty_sleeping: false, init: false, txpower: false, irq: false, modulation: false,
    packet: false, freq: false, payload: false, asleep_cmd: false, dep_missing: false, calls: 0,
    fail_at: usize::MAX, fail_at2: usize::MAX, irq_script: [2; 3], irq_pos: 0, rx_continuous: false, listen_only: false,
};
pub(crate) fn chip() -> &'static mut Chip {
    unsafe { &mut *core::ptr::addr_of_mut!(CHIP) }
}

pub(crate) struct ModelChip;

impl ModelChip {
    /// every chip command: fault injection, then "awake?" bookkeeping
    fn cmd(&mut self) -> Result<(), RadioError> {
        let c = chip();
        let k = c.calls;
        c.calls += 1;
        if k == c.fail_at || k == c.fail_at2 {
            return Err(RadioError::SPI);
        }
        if c.mode == ChipMode::Sleep || c.duty_sleeping {
            c.asleep_cmd = true;
        }
        Ok(())
    }
    fn lose_config(c: &mut Chip) {
        c.init = false;
        c.txpower = false;
        c.irq = false;
        c.modulation = false;
        c.packet = false;
        c.freq = false;
        c.payload = false;
    }
}

impl RadioKind for ModelChip {
    async fn init_lora(&mut self, _sync_word: u16) -> Result<(), RadioError> {
        self.cmd()?;
        chip().init = true;
        Ok(())
    }
    async fn set_lora_sync_word(&mut self, _sync_word: u16) -> Result<(), RadioError> {
        self.cmd()
    }
    fn create_modulation_params(&self, sf: SpreadingFactor, bw: Bandwidth, cr: CodingRate, f: u32) -> Result<ModulationParams, RadioError> {
        Ok(ModulationParams { spreading_factor: sf, bandwidth: bw, coding_rate: cr, low_data_rate_optimize: 0, frequency_in_hz: f })
    }
    fn create_packet_params(&self, preamble_length: u16, implicit_header: bool, payload_length: u8, crc_on: bool, iq_inverted: bool, _m: &ModulationParams) -> Result<PacketParams, RadioError> {
        Ok(PacketParams { preamble_length, implicit_header, payload_length, crc_on, iq_inverted })
    }
    async fn reset(&mut self, _delay: &mut impl DelayNs) -> Result<(), RadioError> {
        let c = chip();
        let k = c.calls;
        c.calls += 1;
        if k == c.fail_at || k == c.fail_at2 {
            return Err(RadioError::Reset);
        }
        c.mode = ChipMode::Standby;
        c.duty_sleeping = false;
        Self::lose_config(c);
        Ok(())
    }
    async fn ensure_ready(&mut self, mode: RadioMode) -> Result<(), RadioError> {
        let c = chip();
        let k = c.calls;
        c.calls += 1;
        if k == c.fail_at || k == c.fail_at2 {
            return Err(RadioError::Busy);
        }
        match mode {
            RadioMode::Sleep | RadioMode::Receive(RxMode::DutyCycle(_)) => {
                // wake-up transaction
                if c.mode == ChipMode::Sleep {
                    c.mode = ChipMode::Standby;
                }
                c.duty_sleeping = false;
            }
            _ => {} // only waits for BUSY: does not wake a sleeping chip
        }
        Ok(())
    }
    async fn set_standby(&mut self) -> Result<(), RadioError> {
        self.cmd()?;
        let c = chip();
        if c.mode != ChipMode::Sleep {
            c.mode = ChipMode::Standby;
            c.duty_sleeping = false;
        }
        Ok(())
    }
    async fn set_sleep(&mut self, warm_start_if_possible: bool, _delay: &mut impl DelayNs) -> Result<(), RadioError> {
        self.cmd()?;
        let c = chip();
        c.mode = ChipMode::Sleep;
        if !warm_start_if_possible {
            Self::lose_config(c);
        }
        Ok(())
    }
    async fn set_tx_rx_buffer_base_address(&mut self, _t: usize, _r: usize) -> Result<(), RadioError> {
        self.cmd()
    }
    async fn set_tx_power_and_ramp_time(&mut self, _p: i32, _m: Option<&ModulationParams>, _prep: bool) -> Result<(), RadioError> {
        self.cmd()?;
        chip().txpower = true;
        Ok(())
    }
    async fn set_modulation_params(&mut self, _m: &ModulationParams) -> Result<(), RadioError> {
        self.cmd()?;
        chip().modulation = true;
        Ok(())
    }
    async fn set_packet_params(&mut self, _p: &PacketParams) -> Result<(), RadioError> {
        self.cmd()?;
        chip().packet = true;
        Ok(())
    }
    async fn calibrate_image(&mut self, _f: u32) -> Result<(), RadioError> {
        self.cmd()
    }
    async fn set_channel(&mut self, _f: u32) -> Result<(), RadioError> {
        self.cmd()?;
        chip().freq = true;
        Ok(())
    }
    async fn set_payload(&mut self, _p: &[u8]) -> Result<(), RadioError> {
        self.cmd()?;
        chip().payload = true;
        Ok(())
    }
    async fn do_tx(&mut self) -> Result<(), RadioError> {
        self.cmd()?;
        let c = chip();
        if !(c.init && c.txpower && c.irq && c.modulation && c.packet && c.freq && c.payload) {
            c.dep_missing = true;
        }
        if c.mode != ChipMode::Sleep {
            c.mode = ChipMode::Tx;
        }
        Ok(())
    }
    async fn do_rx(&mut self, rx_mode: RxMode) -> Result<(), RadioError> {
        self.cmd()?;
        let c = chip();
        let deps = if c.listen_only { c.init && c.modulation && c.freq } else { c.init && c.irq && c.modulation && c.packet && c.freq };
        if !deps {
            c.dep_missing = true;
        }
        if c.mode != ChipMode::Sleep {
            c.mode = ChipMode::Rx;
            c.rx_continuous = matches!(rx_mode, RxMode::Continuous);
            c.duty_sleeping = matches!(rx_mode, RxMode::DutyCycle(_));
        }
        Ok(())
    }
    async fn get_rx_payload(&mut self, _p: &PacketParams, _b: &mut [u8]) -> Result<u8, RadioError> {
        self.cmd()?;
        Ok(0)
    }
    async fn get_rx_packet_status(&mut self) -> Result<PacketStatus, RadioError> {
        self.cmd()?;
        Ok(PacketStatus { rssi: 0, snr: 0 })
    }
    async fn get_rssi(&mut self) -> Result<i16, RadioError> {
        self.cmd()?;
        Ok(0)
    }
    async fn do_cad(&mut self, _m: &ModulationParams) -> Result<(), RadioError> {
        self.cmd()?;
        let c = chip();
        if !(c.init && c.irq && c.modulation && c.freq) {
            c.dep_missing = true;
        }
        if c.mode != ChipMode::Sleep {
            c.mode = ChipMode::Cad;
        }
        Ok(())
    }
    async fn set_irq_params(&mut self, _m: Option<RadioMode>) -> Result<(), RadioError> {
        self.cmd()?;
        chip().irq = true;
        Ok(())
    }
    async fn set_tx_continuous_wave_mode(&mut self) -> Result<(), RadioError> {
        self.cmd()?;
        let c = chip();
        if c.mode != ChipMode::Sleep {
            c.mode = ChipMode::Tx;
        }
        Ok(())
    }
    async fn await_irq(&mut self) -> Result<(), RadioError> {
        let c = chip();
        let k = c.calls;
        c.calls += 1;
        if k == c.fail_at || k == c.fail_at2 { Err(RadioError::Irq) } else { Ok(()) }
    }
    async fn process_irq_event(&mut self, _mode: RadioMode, cad: Option<&mut bool>, _clear: bool) -> Result<Option<IrqState>, RadioError> {
        // IRQ processing follows an interrupt from the chip: it is not in a duty-cycle sleep phase then
        chip().duty_sleeping = false;
        self.cmd()?;
        let c = chip();
        // beyond the script the operation completes (bounds the polling loops of tx / complete_rx)
        let ev = if c.irq_pos < 3 { c.irq_script[c.irq_pos] } else { 2 };
        c.irq_pos += 1;
        // TxDone / RxDone (single, duty cycle) / CadDone / a timeout return the chip to standby on
        // its own (SX126x: STDBY_RC; SX127x: standby after single RX / TX); continuous RX stays in RX
        let completes = ev >= 2 || (ev == 1 && c.mode != ChipMode::Rx);
        if completes && c.mode != ChipMode::Sleep && !(c.mode == ChipMode::Rx && c.rx_continuous) {
            c.mode = ChipMode::Standby;
            c.duty_sleeping = false;
        }
        match ev {
            0 => Ok(None),
            1 => if c.mode == ChipMode::Rx { Ok(Some(IrqState::PreambleReceived)) } else { Ok(Some(IrqState::Done)) },
            2 => {
                if let Some(f) = cad {
                    *f = false;
                }
                Ok(Some(IrqState::Done))
            }
            _ => Err(RadioError::ReceiveTimeout),
        }
    }
    async fn get_irq_state(&mut self, _mode: RadioMode, _cad: Option<&mut bool>) -> Result<Option<IrqState>, RadioError> {
        chip().duty_sleeping = false;
        self.cmd()?;
        Ok(None)
    }
    async fn clear_irq_status(&mut self) -> Result<(), RadioError> {
        self.cmd()
    }
}


#[test]
fn failed_init_after_reset_does_not_leave_a_prepared_transmission() {
    let c = chip();
    c.mode = ChipMode::Standby;
    c.fail_at = usize::MAX;
    c.fail_at2 = usize::MAX;
    let mut lora = block_on(LoRa::new(ModelChip, false, NoDelay)).unwrap();
    let mp = ModulationParams { spreading_factor: SpreadingFactor::_7, bandwidth: Bandwidth::_125KHz, coding_rate: CodingRate::_4_5, low_data_rate_optimize: 0, frequency_in_hz: 868_100_000 };
    let mut pp = PacketParams { preamble_length: 8, implicit_header: false, payload_length: 4, crc_on: true, iq_inverted: false };
    block_on(lora.prepare_for_tx(&mp, &mut pp, 14, &[1, 2, 3, 4])).unwrap();
    assert!(!chip().dep_missing && chip().modulation && chip().payload);
    // the application re-initialises the radio; the bus fails right after the reset pulse
    chip().fail_at = chip().calls + 1; // calls+0 = reset, calls+1 = ensure_ready
    let r = block_on(lora.init());
    assert!(r.is_err(), "init reports the fault");
    assert!(!chip().modulation && !chip().init, "the reset wiped the chip's configuration");
    chip().fail_at = usize::MAX;
    // ... and transmits (the earlier prepare_for_tx succeeded, after all)
    let r = block_on(lora.tx());
    assert!(
        !chip().dep_missing,
        "tx() -> {:?}: a transmission was started on a chip that lost its whole configuration in the reset",
        r
    );
}
