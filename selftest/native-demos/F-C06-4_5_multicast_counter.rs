// appended to lorawan-device/src/async_device/test/multicast.rs; run with
//   cargo test --offline -p lorawan-device --features multicast --lib multicast
// (fails on the tree before the two fixes, passes after)
// ---- F-C06-4 demonstration: the McGroupSetupAns uplink must consume its frame counter
fn wire_fcnt(mut uplink: Uplink) -> u32 {
    match parser::parse(&*uplink.data_mut()) {
        Ok(parser::PhyPayload::Data(data)) => data.fhdr().fcnt() as u32,
        _ => panic!("data frame expected"),
    }
}
fn nothing(_uplink: Option<Uplink>, _c: RfConfig, _b: &mut [u8]) -> usize {
    0
}
#[tokio::test]
async fn multicast_answer_consumes_its_frame_counter() {
    let (radio, _timer, mut async_device) = util::setup_with_session_class_c().await;
    async_device.mac.multicast.mc_k_e_key = Some(McKEKey::from([0x66; 16]));
    let task = tokio::spawn(async move {
        let response = async_device.rxc_listen().await;
        (async_device, response)
    });
    radio.handle_rxtx(handle_multicast_setup_req).await;
    radio.handle_rxtx(nothing).await;
    let (mut device, response) = task.await.unwrap();
    assert!(matches!(response, Ok(ListenResponse::Multicast(MulticastResponse::NewSession { .. }))));
    let ans = radio.get_last_uplink().await;
    let ans_bytes = ans.clone().data_mut().to_vec();
    let a = wire_fcnt(ans);
    // the application's next uplink
    let _task = tokio::spawn(async move {
        let response = device.send(&[7, 7, 7], 5, false).await;
        (device, response)
    });
    tokio::time::sleep(tokio::time::Duration::from_millis(100)).await;
    let next = radio.get_last_uplink().await;
    let next_bytes = next.clone().data_mut().to_vec();
    let n = wire_fcnt(next);
    assert_ne!(ans_bytes, next_bytes, "the application uplink was handed to the radio");
    assert!(n > a, "McGroupSetupAns went out with FCntUp {a} and the next uplink with FCntUp {n}: counter reused");
}

// ---- F-C06-5 demonstration: a multicast downlink that ends a Class A transaction
fn multicast_data_downlink(_uplink: Option<Uplink>, _config: RfConfig, rx_buffer: &mut [u8]) -> usize {
    use lorawan::default_crypto::DefaultCrypto;
    let mc_addr = McAddr::from_wire_bytes([52, 110, 29, 60]);
    let mc_key = McKey::from([0x44; 16]);
    let kc = DefaultCrypto::new(mc_key.inner());
    let app = McKey::derive_mc_app_s_key(&kc, &mc_addr);
    let net = McKey::derive_mc_net_s_key(&kc, &mc_addr);
    let frame = DataFrame {
        frame_type: DataFrameType::UnconfirmedDown,
        dev_addr: lorawan::parser::DevAddr::from_wire_bytes(*mc_addr.as_wire_bytes()),
        fcnt: 0,
        payload: Payload::Data { f_port: NonZeroU8::new(201).unwrap(), data: &[0xAA, 0xBB] },
        ..Default::default()
    };
    let finished = frame
        .build_into(rx_buffer, &DefaultCrypto::new(net.inner()), Some(&DefaultCrypto::new(app.inner())))
        .unwrap();
    finished.len()
}
#[tokio::test]
async fn multicast_downlink_in_rx1_consumes_the_uplink_counter() {
    let (radio, timer, mut async_device) = util::setup_with_session_class_c().await;
    async_device.mac.multicast.mc_k_e_key = Some(McKEKey::from([0x66; 16]));
    let task = tokio::spawn(async move {
        let response = async_device.rxc_listen().await;
        (async_device, response)
    });
    radio.handle_rxtx(handle_multicast_setup_req).await;
    radio.handle_rxtx(nothing).await;
    let (mut device, response) = task.await.unwrap();
    assert!(matches!(response, Ok(ListenResponse::Multicast(MulticastResponse::NewSession { .. }))));
    // application uplink; a multicast frame is what the radio receives in RX1
    let task = tokio::spawn(async move {
        let response = device.send(&[7, 7, 7], 5, false).await;
        (device, response)
    });
    timer.fire_most_recent().await;
    radio.handle_rxtx(multicast_data_downlink).await;
    let (mut device, response) = task.await.unwrap();
    let first = radio.get_last_uplink().await;
    let first_bytes = first.clone().data_mut().to_vec();
    let a = wire_fcnt(first);
    assert!(
        matches!(response, Ok(SendResponse::Multicast(MulticastResponse::DownlinkReceived { .. }))),
        "the multicast downlink ends the transaction: {:?}",
        response.as_ref().map_err(|_| ())
    );
    let _task = tokio::spawn(async move {
        let response = device.send(&[8, 8, 8], 5, false).await;
        (device, response)
    });
    tokio::time::sleep(tokio::time::Duration::from_millis(100)).await;
    let next = radio.get_last_uplink().await;
    let next_bytes = next.clone().data_mut().to_vec();
    let n = wire_fcnt(next);
    assert_ne!(first_bytes, next_bytes, "the second application uplink was handed to the radio");
    assert!(n > a, "uplink with FCntUp {a}, then (after a multicast downlink in RX1) another uplink with FCntUp {n}: counter reused");
}
