// F-C04-4: append to lorawan-device/src/async_device/test/class_c.rs and run
//   cargo test -p lorawan-device --offline --lib demo_class_c
// Before the fix: "Invalid async_device::ListenResponse::from RxComplete" (panic in rxc_listen).
pub fn class_c_oversized(_uplink: Option<Uplink>, _config: RfConfig, rx_buffer: &mut [u8]) -> usize {
    // foreign traffic: a data-down MHDR followed by garbage, longer than the RXC data rate allows
    for (i, b) in rx_buffer.iter_mut().enumerate().take(200) {
        *b = i as u8;
    }
    rx_buffer[0] = 0x60;
    200
}

#[tokio::test]
async fn demo_class_c_oversized_frame_must_not_panic() {
    let (radio, _timer, mut async_device) = util::setup_with_session_class_c().await;
    let task = tokio::spawn(async move {
        let response = async_device.rxc_listen().await;
        (async_device, response)
    });
    radio.handle_rxtx(class_c_oversized).await;
    // the frame is not for us: the device must keep listening; deliver a real downlink next
    radio.handle_rxtx(class_c_downlink::<1>).await;
    let (_device, response) = task.await.expect("rxc_listen panicked on an oversized foreign frame");
    assert!(matches!(response, Ok(ListenResponse::DownlinkReceived(_))));
}
