// F-C07-2: append to lorawan-device/src/async_device/test/class_c.rs and run
//   cargo test -p lorawan-device --offline --lib demo_class_c_join
// Before the fix: join() returns Err(Mac(NotJoined)) as soon as any frame is heard on the Class C
// (RX2) channel while the device waits for a join window; the JoinAccept sent in RX1 is never
// listened for.
pub fn foreign_frame(_uplink: Option<Uplink>, _config: RfConfig, rx_buffer: &mut [u8]) -> usize {
    // somebody else's unconfirmed data downlink
    let frame = [0x60u8, 0x11, 0x22, 0x33, 0x44, 0x00, 0x05, 0x00, 0x01, 0xaa, 0xbb, 0x01, 0x02, 0x03, 0x04];
    rx_buffer[..frame.len()].copy_from_slice(&frame);
    frame.len()
}

#[tokio::test]
async fn demo_class_c_join_survives_a_foreign_frame() {
    let (radio, timer, mut async_device) = util::setup();
    async_device.enable_class_c();
    let task = tokio::spawn(async move { async_device.join(&crate::test_util::get_otaa_credentials()).await });
    // a frame of another device is heard on the RX2 channel while waiting for RX1
    radio.handle_rxtx(foreign_frame).await;
    tokio::time::sleep(tokio::time::Duration::from_millis(50)).await;
    if task.is_finished() {
        let response = task.await.unwrap();
        panic!("a foreign frame heard while waiting for RX1 ended the join attempt with {response:?}");
    }
    // RX1 opens and the JoinAccept arrives
    timer.fire_most_recent().await;
    radio.handle_rxtx(crate::test_util::handle_join_request::<7>).await;
    let response = task.await.unwrap();
    assert!(matches!(response, Ok(crate::async_device::JoinResponse::JoinSuccess)), "join ended with {response:?}");
}
