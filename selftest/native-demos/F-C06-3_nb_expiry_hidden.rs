// F-C06-3: non-blocking device, FCntUp exhausted, radio refuses the TX request
use super::util::*;
use crate::nb_device::radio::{Event as REvent, PhyRxTx, Response as RResponse};
use crate::nb_device::{Device, Response, Timings};
use crate::radio::RfConfig;
use crate::region::{Configuration, Region};
use crate::test_util::*;

#[derive(Default, Debug)]
struct FailingRadio {
    fail_tx: bool,
    frames: std::vec::Vec<std::vec::Vec<u8>>,
    buf: [u8; 8],
}
impl PhyRxTx for FailingRadio {
    type PhyEvent = ();
    type PhyError = &'static str;
    type PhyResponse = ();
    const MAX_RADIO_POWER: u8 = 26;
    const ANTENNA_GAIN: i8 = 0;
    fn get_mut_radio(&mut self) -> &mut Self { self }
    fn get_received_packet(&mut self) -> &mut [u8] { &mut self.buf[..0] }
    fn handle_event(&mut self, event: REvent<'_, Self>) -> Result<RResponse<Self>, Self::PhyError> {
        if let REvent::TxRequest(_, buf) = event {
            self.frames.push(buf.to_vec());
            if self.fail_tx {
                return Err("PA fault after the preamble went out");
            }
            return Ok(RResponse::TxDone(0));
        }
        let _: Option<RfConfig> = None;
        Ok(RResponse::Idle)
    }
}
impl Timings for FailingRadio {
    fn get_rx_window_offset_ms(&self) -> i32 { 0 }
    fn get_rx_window_duration_ms(&self) -> u32 { 100 }
}

#[test]
fn exhausted_counter_is_reported_not_reused_after_tx_error() {
    let _ = test_device; // keep util linked
    let mut device: Device<FailingRadio, rand_core::OsRng, 255> =
        Device::new(Configuration::new(Region::US915), FailingRadio::default(), rand::rngs::OsRng);
    device.join(get_abp_credentials()).unwrap();
    let mut s = device.get_session().unwrap().clone();
    s.fcnt_up = 0xFFFF_FFFF;
    device.set_session(s);
    device.get_radio().fail_tx = true;
    let r1 = device.send(&[1, 2, 3], 1, false);
    let reported1 = matches!(r1, Ok(Response::SessionExpired));
    device.get_radio().fail_tx = true;
    let r2 = device.send(&[9, 9, 9], 1, false);
    let reported2 = matches!(r2, Ok(Response::SessionExpired));
    let frames = &device.get_radio().frames;
    // both frames carry FCnt 0xFFFF (counter 0xFFFFFFFF) with different contents
    assert!(frames.len() >= 1);
    if frames.len() == 2 {
        assert_eq!(frames[0][6..8], frames[1][6..8]);
        assert!(
            reported1,
            "two different uplinks were handed to the radio under counter 0xFFFFFFFF and the first \
             send did not report SessionExpired (r1 = {:?}, r2 reported = {})",
            r1.as_ref().map(|_| ()).map_err(|_| ()),
            reported2
        );
    }
}
