// F-C07-3 / F-C04-5: append to lorawan-device/src/async_device/test/certification/mod.rs and run
//   cargo test -p lorawan-device --offline --features certification --lib demo_rx_app_cnt
// Before the fix (certification feature): Session::handle_rx counted a frame in RxAppCnt before
// its MIC was checked (a frame that is not accepted changed the session), and the `+= 1` panics
// with overflow checks once 65535 frames with a port have been heard.
mod demo_rx_app_cnt {
    use super::_build;
    use crate::mac::{Mac, Response};
    use crate::radio::{RadioBuffer, RfConfig};
    use crate::test_util::{get_dev_addr, get_key};
    use crate::{AppSKey, Downlink, NwkSKey, region};
    use lora_modulation::{Bandwidth, BaseBandModulationParams, CodingRate, SpreadingFactor};

    fn setup() -> (Mac, RfConfig) {
        let mut mac = Mac::new(region::Configuration::new(region::Region::EU868), 20, 0);
        mac.join_abp(NwkSKey::from(get_key()), AppSKey::from(get_key()), get_dev_addr());
        let rf = RfConfig {
            frequency: 868_100_000,
            bb: BaseBandModulationParams::new(SpreadingFactor::_7, Bandwidth::_125KHz, CodingRate::_4_5),
            max_payload_len: 222,
        };
        (mac, rf)
    }

    #[test]
    fn demo_rx_app_cnt_ignores_a_frame_failing_its_mic() {
        let (mut mac, rf) = setup();
        let mut buf = RadioBuffer::<256>::new();
        let mut dl = heapless::Vec::<Downlink, 2>::new();
        let n = _build(buf.as_mut(), "0102", 1, 5);
        buf.as_mut()[n - 1] ^= 0xff; // MIC no longer verifies
        buf.set_pos(n);
        let r = mac.handle_rx::<256, 2>(&mut buf, &mut dl, 0, &rf);
        assert!(matches!(r, Response::NoUpdate));
        assert_eq!(mac.get_session().unwrap().rx_app_cnt, 0, "a frame that is not accepted was counted");
    }

    #[test]
    fn demo_rx_app_cnt_rolls_over() {
        let (mut mac, rf) = setup();
        mac.get_session_mut().unwrap().rx_app_cnt = u16::MAX;
        let mut buf = RadioBuffer::<256>::new();
        let mut dl = heapless::Vec::<Downlink, 2>::new();
        let n = _build(buf.as_mut(), "0102", 1, 5);
        buf.set_pos(n);
        let r = mac.handle_rx::<256, 2>(&mut buf, &mut dl, 0, &rf);
        assert!(matches!(r, Response::DownlinkReceived(1)));
        assert_eq!(mac.get_session().unwrap().rx_app_cnt, 0);
    }
}
