// F-C06-6: append to lorawan-device/src/async_device/test/certification/mod.rs and run
//   cargo test -p lorawan-device --offline --features certification --lib demo_cert_answer
// Before the fix: the answer to a certification request (here DutVersionsAns) is built with the
// current FCntUp; when the radio fails to transmit it, handle_mac_response returns before
// rx2_complete(), the counter is not consumed, and the next application uplink is sent under the
// same counter and keys with different contents.
mod demo_cert_answer {
    use super::build_packet;
    use crate::async_device::radio::{PhyRxTx, RxConfig, RxStatus, Timer};
    use crate::async_device::{Device, Timings};
    use crate::mac::Session;
    use crate::radio::{RxQuality, TxConfig};
    use crate::test_util::{get_dev_addr, get_key};
    use crate::{AppSKey, NwkSKey, region};
    use lorawan::parser::{self, PhyPayload};

    struct FailRadio {
        tx_calls: usize,
        rx_calls: usize,
        fcnts: std::vec::Vec<u16>,
    }
    impl PhyRxTx for FailRadio {
        type PhyError = &'static str;
        const MAX_RADIO_POWER: u8 = 26;
        async fn tx(&mut self, _config: TxConfig, buf: &[u8]) -> Result<u32, Self::PhyError> {
            self.tx_calls += 1;
            let mut copy = buf.to_vec();
            if let Ok(PhyPayload::Data(d)) = parser::parse(&mut copy[..]) {
                self.fcnts.push(d.fhdr().fcnt());
            }
            // the second transmission (the certification answer) fails, e.g. a busy/SPI error
            if self.tx_calls == 2 { Err("radio busy") } else { Ok(0) }
        }
        async fn setup_rx(&mut self, _config: RxConfig) -> Result<(), Self::PhyError> {
            Ok(())
        }
        async fn rx_continuous(&mut self, _b: &mut [u8]) -> Result<(usize, RxQuality), Self::PhyError> {
            Err("unused")
        }
        async fn rx_single(&mut self, buf: &mut [u8]) -> Result<RxStatus, Self::PhyError> {
            self.rx_calls += 1;
            if self.rx_calls == 1 {
                // RX1 of the first uplink: DutVersionsReq on port 224, FCntDown 1
                let n = build_packet(buf, "7f", 1);
                Ok(RxStatus::Rx(n, RxQuality::new(-80, 5)))
            } else {
                Ok(RxStatus::RxTimeout)
            }
        }
    }
    impl Timings for FailRadio {
        fn get_rx_window_lead_time_ms(&self) -> u32 {
            10
        }
    }
    struct NowTimer;
    impl Timer for NowTimer {
        fn reset(&mut self) {}
        async fn at(&mut self, _millis: u64) {}
        async fn delay_ms(&mut self, _millis: u64) {}
    }

    #[tokio::test]
    async fn demo_cert_answer_consumes_its_counter_when_the_radio_fails() {
        let session = Session::new(NwkSKey::from(get_key()), AppSKey::from(get_key()), get_dev_addr());
        let radio = FailRadio { tx_calls: 0, rx_calls: 0, fcnts: std::vec::Vec::new() };
        let mut device: Device<FailRadio, NowTimer, rand_core::OsRng, 512, 4> = Device::new_with_session(
            region::Configuration::new(region::Region::EU868), radio, NowTimer, rand_core::OsRng, Some(session));
        let r1 = device.send(&[1, 2, 3], 1, false).await;
        assert!(r1.is_err(), "the failed answer transmission is reported: {r1:?}");
        let r2 = device.send(&[4, 5, 6], 1, false).await;
        assert!(r2.is_ok());
        let fcnts = &device.get_radio().fcnts;
        assert_eq!(fcnts.len(), 3, "uplink, answer, uplink");
        assert!(fcnts[2] > fcnts[1], "the uplink after the failed answer reuses FCntUp {} (frames handed to the radio: {:?})", fcnts[1], fcnts);
    }
}
