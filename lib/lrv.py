# lrv - driver library for the solver-based checks of /repo (lora-rs).
# See /verif/DESIGN.md section 2.  Python 3 standard library only.
import os, re, sys, json, time, glob, shutil, signal, hashlib, resource, subprocess, threading

VERIF = os.path.dirname(os.path.dirname(os.path.abspath(__file__)))
REPO = os.environ.get("LRV_REPO", "/repo")
SCRATCH_ROOT = os.environ.get("LRV_SCRATCH", "/var/tmp")
HARNESS_DIR = os.path.join(VERIF, "harness")
NCPU = os.cpu_count() or 4

ENV = dict(os.environ)
ENV.update({"CARGO_NET_OFFLINE": "true", "CARGO_TERM_COLOR": "never"})
ENV.pop("RUSTUP_TOOLCHAIN", None)

# ---------------------------------------------------------------------------------------------
# build configurations: package, cargo feature arguments, whether the crypto model is swapped in
# ---------------------------------------------------------------------------------------------
def _dev(features, region, swap=True):
    # `--cfg lrv_region="..."` tells the harnesses which region is under test independently of the
    # feature set: native playback has to be built with region-eu868 and region-us915 enabled as
    # well (the crate's own #[cfg(test)] modules need both), which would otherwise change REGIONS[0]
    return dict(package="lorawan-device", features=features, region=region,
                args=["--no-default-features", "--features", features], swap=swap,
                rustflags='--cfg lrv_region="%s"' % region)

BUILDS = {
    "mod": dict(package="lora-modulation", args=[], swap=False),
    "enc": dict(package="lorawan", args=[], swap=True),
    "enc-real": dict(package="lorawan", args=[], swap=False,
                     rustflags='--cfg aes_backend="soft"'),
    "dev-eu868": _dev("region-eu868,class-c", "eu868"),
    "dev-eu433": _dev("region-eu433,class-c", "eu433"),
    "dev-in865": _dev("region-in865,class-c", "in865"),
    "dev-as923": _dev("region-as923-1,region-as923-2,region-as923-3,region-as923-4,class-c", "as923"),
    "dev-us915": _dev("region-us915,class-c", "us915"),
    "dev-au915": _dev("region-au915,class-c", "au915"),
    "dev-eu868-noc": _dev("region-eu868", "eu868"),
    "dev-us915-noc": _dev("region-us915", "us915"),
    "dev-serde": _dev("region-eu868,class-c,serde", "eu868"),
    # the non-default `multicast` feature changes the signatures the MAC-level harnesses call:
    # only the front-end harness files that are written for it are overlaid in this build
    "dev-eu868-mc": dict(_dev("region-eu868,multicast", "eu868"),
                         only_files=["async_common.rs", "async_mc_h.rs"],
                         # the crate's own multicast tests (compiled, not run, by the native
                         # playback) need the class-c test fixtures
                         playback_features=["class-c"]),
    # likewise for the non-default `certification` feature
    "dev-eu868-cert": dict(_dev("region-eu868,certification", "eu868"),
                           playback_features=["class-c", "certification"]),
    "phy": dict(package="lora-phy", args=["--features", "lorawan-radio"], swap=True,
                # cargo-kani drops `dep/feature` arguments: give the optional lorawan-device dependency
                # its region features in the scratch copy's manifest instead (build config only)
                edits=[("lora-phy/Cargo.toml",
                        'lorawan-device = { path = "../lorawan-device", default-features = false, version = "0.12", optional = true }',
                        'lorawan-device = { path = "../lorawan-device", default-features = false, features = ["region-eu868", "region-us915"], version = "0.12", optional = true }')]),
}

# ---------------------------------------------------------------------------------------------
# harness discovery: annotations inside /verif/harness/**.rs
#   //@file anchor=<path of the source file (relative to /repo) whose child module this becomes>
#           [cfg=<extra cfg predicate>]
#   //@h id=<harness fn name> props=C01,C02 tier=quick|thorough build=<BUILDS key>
#        [cost=<expected seconds>] [timeout=<s>] [unwind=<n>] [kind=panicfree|functional]
#   //@bounds <text>      (attached to the preceding //@h)
#   //@assumes <text>
#   //@encodes <functions of /repo executed symbolically>
#   //@out <what is outside the claim>
# ---------------------------------------------------------------------------------------------
class Harness:
    def __init__(self, file, modname, anchor, kv):
        self.file, self.modname, self.anchor = file, modname, anchor
        self.id = kv["id"]
        self.props = kv.get("props", "").split(",")
        self.tier = kv.get("tier", "quick")
        self.build = kv["build"]
        self.cost = float(kv.get("cost", 20))
        self.timeout = int(kv["timeout"]) if "timeout" in kv else None
        self.kind = kv.get("kind", "functional")
        # thorough tier: the same harness function is also run under these builds (other regions:
        # `--cfg lrv_region` makes region index 0 the region of that build)
        self.tbuilds = [b for b in kv.get("tbuilds", "").split(",") if b]
        self.uid = self.id
        self.bounds, self.assumes, self.encodes, self.out = [], [], [], []

    def instance(self, build):
        import copy
        h = copy.copy(self)
        h.build, h.tier, h.tbuilds = build, "thorough", []
        h.uid = "%s@%s" % (self.id, build)
        h.cost = self.cost * 1.2
        return h

    def fq(self):
        """fully qualified harness name for `cargo kani --exact --harness` (without --exact the
        filter is a substring match: `iterator_step` would also run iterator_step_uplink, ...)"""
        rel = self.anchor.split("/src/", 1)[1][:-3]          # e.g. mac/session, sx127x/mod, lib
        parts = [x for x in rel.split("/") if x not in ("mod", "lib")]
        return "::".join(parts + [self.modname, self.id])

    def brief(self):
        return dict(id=self.uid, file=os.path.relpath(self.file, VERIF), anchor=self.anchor,
                    build=self.build, bounds=" ".join(self.bounds), assumes=self.assumes,
                    encodes=self.encodes, outside=self.out)


def modname_for(path):
    rel = os.path.relpath(path, HARNESS_DIR)
    return "verif_kani_" + re.sub(r"[^A-Za-z0-9]", "_", rel[:-3])


def lint_statics():
    """Kani resolves a constant whose bytes equal the initial bytes of a static to that static
    (allocations are interned by content): a harness that writes to `static mut X: bool = false`
    silently changes constants of the code under test (DESIGN 9.4).  Every harness/model static
    must therefore be wrapped in the uniquely tagged cell Uq<T>."""
    bad = []
    paths = glob.glob(os.path.join(HARNESS_DIR, "**", "*.rs"), recursive=True) + glob.glob(os.path.join(VERIF, "model", "*.rs"))
    magics = {}
    for path in paths:
        for n, line in enumerate(open(path), 1):
            m = re.match(r"\s*(?:pub(?:\(crate\))? )?static (?:mut )?(\w+)\s*:", line)
            if m and not line.strip().startswith("//"):
                mm = re.search(r"Uq<.*magic: (0x[0-9A-Fa-f_]+)", line)
                if not mm:
                    bad.append("%s:%d %s (not wrapped in Uq)" % (os.path.relpath(path, VERIF), n, m.group(1)))
                elif mm.group(1) in magics:
                    bad.append("%s:%d %s (magic reused from %s)" % (os.path.relpath(path, VERIF), n, m.group(1), magics[mm.group(1)]))
                else:
                    magics[mm.group(1)] = m.group(1)
    if bad:
        raise SystemExit("harness statics without a unique tag (would alias constants under Kani): " + "; ".join(bad))


def discover():
    files, harnesses = _discover()
    extra = []
    for h in harnesses:
        for b in h.tbuilds:
            extra.append(h.instance(b))
    return files, harnesses + extra


def _discover():
    lint_statics()
    files, harnesses = [], []
    for path in sorted(glob.glob(os.path.join(HARNESS_DIR, "**", "*.rs"), recursive=True)):
        anchor, cfg, cur = None, None, None
        for line in open(path):
            line = line.strip()
            if line.startswith("//@file"):
                kv = dict(x.split("=", 1) for x in line.split()[1:])
                anchor, cfg = kv["anchor"], kv.get("cfg")
            elif line.startswith("//@h "):
                kv = dict(x.split("=", 1) for x in line.split()[1:])
                cur = Harness(path, modname_for(path), anchor, kv)
                harnesses.append(cur)
            elif cur is not None and line.startswith("//@bounds"):
                cur.bounds.append(line[len("//@bounds"):].strip())
            elif cur is not None and line.startswith("//@assumes"):
                cur.assumes.append(line[len("//@assumes"):].strip())
            elif cur is not None and line.startswith("//@encodes"):
                cur.encodes.append(line[len("//@encodes"):].strip())
            elif cur is not None and line.startswith("//@out"):
                cur.out.append(line[len("//@out"):].strip())
        if anchor is None:
            continue  # support file (included by others)
        files.append(dict(path=path, anchor=anchor, cfg=cfg, modname=modname_for(path)))
    return files, harnesses


# ---------------------------------------------------------------------------------------------
# scratch copy + overlay
# ---------------------------------------------------------------------------------------------
_scratches = []


def make_scratch(tag):
    d = os.path.join(SCRATCH_ROOT, "lrv-%s-%d-%d" % (tag, os.getpid(), len(_scratches)))
    shutil.rmtree(d, ignore_errors=True)
    os.makedirs(d)
    _scratches.append(d)
    subprocess.check_call(["rsync", "-a", "--exclude", "/target", "--exclude", "/.git",
                           "--exclude", "/examples", REPO + "/", d + "/src/"])
    return d


def cleanup():
    for d in _scratches:
        shutil.rmtree(d, ignore_errors=True)
    del _scratches[:]


class Inconclusive(Exception):
    pass


def files_for_build(files, b, pkg_dirs):
    """harness files overlaid in build `b`: those anchored in the package under verification,
    restricted to the build's `only_files` list when it has one"""
    fs = [f for f in files if f["anchor"].split("/")[0] in pkg_dirs]
    if b.get("only_files"):
        fs = [f for f in fs if os.path.basename(f["path"]) in b["only_files"]]
    return fs


def apply_overlay(scratch, files, swap_crypto, edits=()):
    """Append one `#[cfg(kani)] #[path=..] mod ..;` line per harness file to its anchor in the
    scratch copy.  Harness files are copied into the scratch directory so that replay tests can
    be appended to them there.  Returns {harness file -> copy path}."""
    src = os.path.join(scratch, "src")
    hcopy = os.path.join(scratch, "harness")
    if os.path.exists(hcopy):
        shutil.rmtree(hcopy)
    shutil.copytree(HARNESS_DIR, hcopy)
    modeldir = os.path.join(scratch, "model")
    if os.path.exists(modeldir):
        shutil.rmtree(modeldir)
    shutil.copytree(os.path.join(VERIF, "model"), modeldir)
    copies = {}
    for f in files:
        anchor = os.path.join(src, f["anchor"])
        if not os.path.isfile(anchor):
            raise Inconclusive("overlay anchor missing: %s" % f["anchor"])
        cp = os.path.join(hcopy, os.path.relpath(f["path"], HARNESS_DIR))
        copies[f["path"]] = cp
        cfg = "kani" if not f["cfg"] else "all(kani, %s)" % f["cfg"]
        with open(anchor, "a") as fh:
            fh.write('\n#[cfg(%s)]\n#[allow(warnings, unused_extern_crates, clippy::all)]\n'
                     '#[path = "%s"]\npub(crate) mod %s;\n' % (cfg, cp, f["modname"]))
    for rel, needle, repl in edits:
        path = os.path.join(src, rel)
        text = open(path).read() if os.path.isfile(path) else ""
        if text.count(needle) != 1:
            raise Inconclusive("build edit anchor not found exactly once in %s" % rel)
        open(path, "w").write(text.replace(needle, repl))
    if swap_crypto:
        lib = os.path.join(src, "lorawan-encoding/src/lib.rs")
        text = open(lib).read()
        needle = "pub mod default_crypto;"
        if text.count(needle) != 1:
            raise Inconclusive("crypto swap anchor `pub mod default_crypto;` not found exactly once")
        text = text.replace(needle,
            '#[cfg(not(kani))]\npub mod default_crypto;\n#[cfg(kani)]\n#[allow(warnings)]\n'
            '#[path = "%s/default_crypto.rs"]\npub mod default_crypto;' % modeldir)
        open(lib, "w").write(text)
    return copies


# ---------------------------------------------------------------------------------------------
# native replay of contract-stub harnesses
# ---------------------------------------------------------------------------------------------
# `#[kani::stub(target, stub)]` is not applied by `cargo kani playback`: the playback test would
# run the real function, consume the recorded values in a different order and fail (or pass) for
# reasons that have nothing to do with the counterexample.  For the native replay the stub is
# therefore installed in the scratch copy's source: the target's body starts with a `return
# stub(args)`, so the replay runs exactly the composition the solver decided (real front-end code +
# the contracts that stand for the stubbed functions).  The files are restored afterwards.
STUB_TARGETS = {
    # target path as written in the attribute -> (source file, regex that finds the fn header)
    "Mac::": "lorawan-device/src/mac/mod.rs",
    "Session::": "lorawan-device/src/mac/session.rs",
    "multicast::Response::": "lorawan-device/src/mac/multicast.rs",
}


def stubs_of(h):
    """[(target, stub fn name)] of harness h, read from the attributes above its fn (or from the
    macro that generates it)"""
    text = open(h.file).read()
    lines = text.split("\n")
    out = []
    idx = next((i for i, l in enumerate(lines) if re.match(r"\s*fn %s\s*\(" % re.escape(h.id), l)), None)
    if idx is not None:
        i = idx - 1
        while i >= 0 and (lines[i].strip().startswith("#[") or lines[i].strip().startswith("//")):
            m = re.match(r"\s*#\[kani::stub\(([^,]+),\s*([^)]+)\)\]", lines[i])
            if m:
                out.append((m.group(1).strip(), m.group(2).strip()))
            i -= 1
        return out
    # macro-generated harness: `name!(<id>, ...)` -> stubs listed inside `macro_rules! name`
    m = re.search(r"^(\w+)!\(%s\b" % re.escape(h.id), text, flags=re.M)
    if m:
        mm = re.search(r"macro_rules!\s*%s\s*\{(.*?)^\}; \}|macro_rules!\s*%s\s*\{(.*?)\n\}" % (m.group(1), m.group(1)),
                       text, flags=re.S | re.M)
        body = (mm.group(1) or mm.group(2)) if mm else ""
        out = [(a.strip(), b.strip()) for a, b in re.findall(r"#\[kani::stub\(([^,]+),\s*([^)]+)\)\]", body)]
    return out


def inject_stubs(scratch, h, stubs, copies):
    """install the stubs of harness h in the scratch copy for a native replay; returns
    (undo list [(path, original text)], problems [str])"""
    src = os.path.join(scratch, "src")
    undo, problems = [], []
    hdir = os.path.dirname(copies[h.file])
    # module path of every harness file of this package (for `crate::...::stub_fn`)
    def modpath_of(path):
        text = open(path).read()
        m = re.search(r"//@file anchor=(\S+)", text)
        if not m:
            return None
        rel = m.group(1).split("/src/", 1)[1][:-3]
        parts = [x for x in rel.split("/") if x not in ("mod", "lib")]
        orig = next((o for o, c in copies.items() if c == path), None)
        if orig is None:   # a sibling that is not overlaid in this build
            orig = os.path.join(HARNESS_DIR, os.path.relpath(path, os.path.join(scratch, "harness")))
        return "::".join(["crate"] + parts + [modname_for(orig)])
    for target, stub in stubs:
        fname = target.split("::")[-1]
        srcfile = next((f for pre, f in STUB_TARGETS.items() if target.startswith(pre)), None)
        if not srcfile:
            problems.append("no native installation for stub target %s" % target)
            continue
        # the file that defines the stub fn: the harness's own copy first, then its siblings
        cands = [copies[h.file]] + sorted(os.path.join(hdir, x) for x in os.listdir(hdir) if x.endswith(".rs"))
        sfile = next((c for c in cands if re.search(r"^(pub\(crate\) )?fn %s\b" % re.escape(stub), open(c).read(), flags=re.M)), None)
        if not sfile:
            problems.append("stub fn %s not found" % stub)
            continue
        st = open(sfile).read()
        if re.search(r"^fn %s\b" % re.escape(stub), st, flags=re.M):
            undo.append((sfile, st))
            open(sfile, "w").write(re.sub(r"^fn %s\b" % re.escape(stub), "pub(crate) fn %s" % stub, st, flags=re.M))
        path = os.path.join(src, srcfile)
        text = open(path).read()
        m = re.search(r"\bfn %s\s*(<[^>]*>)?\s*\((.*?)\)\s*(->[^{;]*)?\{" % re.escape(fname), text, flags=re.S)
        if not m:
            problems.append("target fn %s not found in %s" % (fname, srcfile))
            continue
        params = []
        depth, cur = 0, ""
        for ch in m.group(2):
            if ch in "<([":
                depth += 1
            elif ch in ">)]":
                depth -= 1
            if ch == "," and depth == 0:
                params.append(cur)
                cur = ""
            else:
                cur += ch
        if cur.strip():
            params.append(cur)
        args = []
        for prm in params:
            prm = re.sub(r"#\[[^\]]*\]", "", prm).strip()
            if not prm:
                continue
            if re.match(r"&?\s*(mut\s+)?self$", prm):
                args.append("self")
            else:
                args.append(re.sub(r"^mut\s+", "", prm.split(":")[0].strip()))
        call = "%s::%s(%s)" % (modpath_of(sfile), stub, ", ".join(args))
        if not any(p == path for p, _ in undo):
            undo.append((path, text))
            text = open(path).read()
        text = text[:m.end()] + "\n        #[allow(unreachable_code)]\n        return %s; // installed for a native replay (lrv.inject_stubs)\n" % call + text[m.end():]
        open(path, "w").write(text)
    return undo, problems


def restore_files(undo):
    for path, text in reversed(undo):
        open(path, "w").write(text)


# ---------------------------------------------------------------------------------------------
# running kani
# ---------------------------------------------------------------------------------------------
def _limits(mem_gb):
    def f():
        os.setsid()
        if mem_gb:
            b = int(mem_gb * (1 << 30))
            resource.setrlimit(resource.RLIMIT_AS, (b, b))
    return f


_children = set()


def kill_children():
    for pid in list(_children):
        try:
            os.killpg(pid, signal.SIGKILL)
        except (ProcessLookupError, PermissionError):
            pass


def _on_term(signum, frame):
    kill_children()
    cleanup()
    os._exit(2)


def install_signal_handlers():
    signal.signal(signal.SIGTERM, _on_term)
    signal.signal(signal.SIGINT, _on_term)
    signal.signal(signal.SIGHUP, _on_term)


def run_cmd(cmd, cwd, log, timeout, mem_gb=None, env=None):
    t0 = time.time()
    with open(log, "w") as fh:
        p = subprocess.Popen(cmd, cwd=cwd, stdout=fh, stderr=subprocess.STDOUT,
                             env=env or ENV, preexec_fn=_limits(mem_gb))
        _children.add(p.pid)
        try:
            rc = p.wait(timeout=timeout)
        except subprocess.TimeoutExpired:
            rc = -9
        finally:
            # cbmc processes may outlive a killed cargo-kani: always reap the whole group
            try:
                os.killpg(p.pid, signal.SIGKILL)
            except (ProcessLookupError, PermissionError):
                pass
            p.wait()
            _children.discard(p.pid)
    return rc, time.time() - t0


def kani_cmd(build, harness_ids, target_dir, harness_timeout, extra=()):
    b = BUILDS[build]
    cmd = ["cargo", "kani", "-p", b["package"]] + b["args"] + [
        "--target-dir", target_dir, "-Z", "stubbing", "-Z", "unstable-options",
        "--harness-timeout", "%ds" % harness_timeout, "--default-unwind", "17", "--no-assertion-reach-checks"]
    if harness_ids and all("::" in h for h in harness_ids):
        cmd.append("--exact")
    for h in harness_ids:
        cmd += ["--harness", h]
    return cmd + list(extra)


CHECK_RE = re.compile(r"^Check (\d+): (.+?)\s*$")


def parse_kani_log(text):
    """Split a regular-format Kani log into per-harness results."""
    res = {}
    parts = re.split(r"^Checking harness (\S+?)\.\.\.\s*$", text, flags=re.M)
    # parts[0] = build output; then name, body, name, body ...
    for i in range(1, len(parts), 2):
        name, body = parts[i], parts[i + 1]
        short = name.split("::")[-1]
        r = dict(name=name, checks=0, failed=[], undetermined=0, covers_total=0,
                 covers_sat=0, covers_unsat=[], verdict=None, time=None, error=None,
                 unwind_fail=False)
        cur = None
        for line in body.splitlines():
            m = CHECK_RE.match(line)
            if m:
                cur = dict(n=int(m.group(1)), name=m.group(2), status=None, desc="", loc="")
                continue
            s = line.strip()
            if cur is not None and s.startswith("- Status:"):
                cur["status"] = s.split(":", 1)[1].strip()
            elif cur is not None and s.startswith("- Description:"):
                cur["desc"] = s.split(":", 1)[1].strip().strip('"').strip()
            elif cur is not None and s.startswith("- Location:"):
                cur["loc"] = s.split(":", 1)[1].strip()
                is_cover = ".cover." in cur["name"]
                if is_cover:
                    r["covers_total"] += 1
                    if cur["status"] == "SATISFIED":
                        r["covers_sat"] += 1
                    elif cur["desc"].startswith("info:"):
                        pass  # informational cover (shape-dependent), not a vacuity witness
                    else:
                        r["covers_unsat"].append(cur)
                else:
                    r["checks"] += 1
                    if cur["status"] == "FAILURE":
                        r["failed"].append(cur)
                        if "unwinding assertion" in cur["desc"]:
                            r["unwind_fail"] = True
                    elif cur["status"] in ("UNDETERMINED",):
                        r["undetermined"] += 1
                cur = None
            elif s.startswith("VERIFICATION:-"):
                r["verdict"] = s.split(":-", 1)[1].strip().split()[0]
            elif s.startswith("Verification Time:"):
                try:
                    r["time"] = float(s.split(":", 1)[1].strip().rstrip("s"))
                except ValueError:
                    pass
            elif "CBMC timed out" in s or "timed out" in s.lower() and "harness" in s.lower():
                r["error"] = "timeout"
            elif s.startswith("Status: ERROR") or "out of memory" in s.lower() \
                    or "CBMC failed" in s or "std::bad_alloc" in s:
                r["error"] = r["error"] or ("cbmc error: " + s[:120])
        res[short] = r
    return res


def classify(r):
    """-> ('held'|'violated'|'inconclusive', reason)"""
    if r is None:
        return "inconclusive", "harness did not run (not found in Kani output / build failed)"
    if r["error"]:
        return "inconclusive", r["error"]
    real_fail = [c for c in r["failed"] if "unwinding assertion" not in c["desc"]]
    if real_fail:
        return "violated", "; ".join(sorted(set("%s @ %s" % (c["desc"], c["loc"]) for c in real_fail)))[:2000]
    if r["unwind_fail"]:
        return "inconclusive", "unwinding assertion failed (bound too small)"
    if r["verdict"] != "SUCCESSFUL":
        return "inconclusive", "verdict=%s undetermined=%d" % (r["verdict"], r["undetermined"])
    if r["covers_unsat"]:
        return "inconclusive", "reachability witness not satisfied: " + "; ".join(
            c["desc"] for c in r["covers_unsat"])
    return "held", ""


# ---------------------------------------------------------------------------------------------
# known findings
# ---------------------------------------------------------------------------------------------
def load_known():
    p = os.path.join(VERIF, "known_findings.json")
    if not os.path.exists(p):
        return []
    return [e for e in json.load(open(p)).get("findings", []) if e.get("status") == "known"]


def match_known(known, prop, harness_id, check):
    """A failed check is covered by a known finding iff property, harness pattern, description
    pattern and location pattern all match."""
    for e in known:
        if e["property"] != prop:
            continue
        if not re.search(e.get("harness", ".*"), harness_id):
            continue
        if not re.search(e.get("desc", ".*"), check["desc"]):
            continue
        if not re.search(e.get("loc", ".*"), check["loc"]):
            continue
        return e
    return None


def file_hash(path):
    try:
        return hashlib.sha256(open(path, "rb").read()).hexdigest()[:16]
    except OSError:
        return None


def write_evidence(prop, ev):
    d = os.path.join(VERIF, "evidence")
    os.makedirs(d, exist_ok=True)
    tmp = os.path.join(d, ".%s.json.tmp" % prop)
    json.dump(ev, open(tmp, "w"), indent=1, sort_keys=True)
    os.replace(tmp, os.path.join(d, "%s.json" % prop))
