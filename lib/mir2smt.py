# mir2smt - translate loop-free integer kernels from rustc's textual MIR (-Zunpretty=mir,
# -Zmir-opt-level=0, overflow-checks=on) into SMT-LIB 2 over mathematical integers with explicit
# wrap-around and overflow side conditions (DESIGN 2.2).  Anything outside the supported
# fragment raises Unsupported: the translator refuses, it never approximates.
import re

INT_T = {"u8": (0, 8), "u16": (0, 16), "u32": (0, 32), "u64": (0, 64), "usize": (0, 64), "u128": (0, 128),
         "i8": (1, 8), "i16": (1, 16), "i32": (1, 32), "i64": (1, 64), "isize": (1, 64), "i128": (1, 128)}


class Unsupported(Exception):
    pass


def trange(t):
    s, w = INT_T[t]
    return (-(1 << (w - 1)), (1 << (w - 1)) - 1) if s else (0, (1 << w) - 1)


def lit(n):
    return str(n) if n >= 0 else "(- %d)" % (-n)


class V:
    """A value: SMT term (string) + rust type; `const` holds the Python int if fully known;
    (lo, hi) is a sound interval for the value (defaults to the type range)."""
    def __init__(self, term, ty, const=None, lo=None, hi=None):
        self.term, self.ty, self.const = term, ty, const
        if const is not None and ty != "bool":
            lo = hi = const
        if ty in INT_T:
            tl, th = trange(ty)
            self.lo = tl if lo is None else max(lo, tl)
            self.hi = th if hi is None else min(hi, th)
        else:
            self.lo = self.hi = None


def mkconst(n, ty):
    if ty == "bool":
        return V("true" if n else "false", "bool", bool(n))
    return V(lit(n), ty, n)


def wrap(term, ty, const=None, rlo=None, rhi=None):
    """reduce an unbounded integer term into the range of `ty` (two's complement); when the
    interval [rlo, rhi] of the raw value already lies inside the type range no reduction is
    emitted (keeps the formulas small: z3 4.8 times out on needlessly nested mod terms)"""
    lo, hi = trange(ty)
    s, w = INT_T[ty]
    if const is not None:
        c = const % (1 << w)
        if s and c > hi:
            c -= (1 << w)
        return mkconst(c, ty)
    if rlo is not None and rhi is not None and lo <= rlo and rhi <= hi:
        return V(term, ty, None, rlo, rhi)
    m = lit(1 << w)
    if not s:
        return V("(mod %s %s)" % (term, m), ty)
    # signed: ((x + 2^(w-1)) mod 2^w) - 2^(w-1)
    h = lit(1 << (w - 1))
    return V("(- (mod (+ %s %s) %s) %s)" % (term, h, m, h), ty)


def tdiv(a, b):
    """Rust integer division truncates towards zero; SMT-LIB div floors for positive divisors."""
    return "(ite (>= %s 0) (div %s %s) (- (div (- %s) %s)))" % (a, a, b, a, b)


def trem(a, b):
    return "(- %s (* %s %s))" % (a, b, tdiv(a, b))


class Function:
    def __init__(self, name, params, ret, body):
        self.name, self.params, self.ret, self.body = name, params, ret, body
        self.locals = {}
        self.blocks = {}
        self.parse()

    def parse(self):
        for m in re.finditer(r"^\s*let (?:mut )?_(\d+): ([^;]+);", self.body, re.M):
            self.locals[int(m.group(1))] = m.group(2).strip()
        for i, (_, t) in enumerate(self.params):
            self.locals[i + 1] = t
        self.locals[0] = self.ret
        for m in re.finditer(r"^\s*bb(\d+)(?: \(cleanup\))?: \{\n(.*?)^\s*\}", self.body, re.M | re.S):
            stmts = [s.strip() for s in m.group(2).split("\n") if s.strip()]
            self.blocks[int(m.group(1))] = stmts


class Module:
    def __init__(self, text):
        self.text = text
        self.funcs = {}
        self.consts = {}      # short name -> [Function]   (consts with a MIR body)
        self.simple = {}      # short name -> [V]          (const X: T = const 14_u32;)
        self._const_cache = {}
        lines = text.split("\n")
        i = 0
        while i < len(lines):
            ln = lines[i]
            m = re.match(r"^const (\S+): (.+?) = const (-?\d+)_([iu](?:8|16|32|64|128|size));$", ln)
            if m:
                self.simple.setdefault(m.group(1).split("::")[-1], []).append(mkconst(int(m.group(3)), m.group(4)))
                i += 1
                continue
            mf = re.match(r"^fn (.+?)\((.*)\) -> (.+) \{$", ln)
            mc = re.match(r"^const (\S+): (.+?) = \{$", ln)
            if mf or mc:
                j = i + 1
                while j < len(lines) and lines[j] != "}":
                    j += 1
                body = "\n".join(lines[i + 1:j]) + "\n"
                if mf:
                    name, params, ret = mf.groups()
                    ps, ok = [], True
                    for p in [x.strip() for x in params.split(", ") if x.strip()]:
                        pm = re.match(r"^_(\d+): (.+)$", p)
                        if not pm:
                            ok = False
                            break
                        ps.append((int(pm.group(1)), pm.group(2).strip()))
                    if ok and name not in self.funcs:
                        self.funcs[name] = (name, ps, ret.strip(), body)
                else:
                    name, ty = mc.groups()
                    self.consts.setdefault(name.split("::")[-1], []).append((name, [], ty.strip(), body))
                i = j + 1
                continue
            i += 1

    def find(self, suffix):
        c = [n for n in self.funcs if n == suffix or n.endswith("::" + suffix)]
        if len(c) != 1:
            raise Unsupported("function %r not found exactly once: %r" % (suffix, c))
        f = self.funcs[c[0]]
        return f if isinstance(f, Function) else Function(*f)

    def const_value(self, path):
        """evaluate a named const (printed unqualified in the dump) by constant folding its MIR;
        several same-named consts must agree, otherwise the translator refuses"""
        short = path.split("::")[-1]
        if short in self._const_cache:
            return self._const_cache[short]
        vals = list(self.simple.get(short, []))
        for f in self.consts.get(short, []):
            fn = Function(*f)
            paths = Exec(self, fn, []).run()
            if len(paths) != 1 or paths[0][2] is None or paths[0][2].const is None:
                raise Unsupported("constant %s is not a closed integer expression" % path)
            vals.append(paths[0][2])
        if not vals:
            raise Unsupported("named constant %s not found in the dump" % path)
        if len(set((v.const, v.ty) for v in vals)) != 1:
            raise Unsupported("named constant %s is ambiguous in the dump" % path)
        self._const_cache[short] = vals[0]
        return vals[0]


class Exec:
    """Symbolic execution of one loop-free function; returns a list of paths
    (path condition terms, [(obligation term, message)], return V)."""

    def __init__(self, mod, fn, args, fields=None):
        self.mod, self.fn, self.args = mod, fn, args
        self.fields = fields or {}   # (param local, field index) -> V  for reads through `&self`
        self.steps = 0

    def run(self):
        env = {}
        for (i, _), a in zip(self.fn.params, self.args):
            env[i] = a
        out = []
        self._block(0, env, [], [], out, set())
        return out

    # ---- operands -------------------------------------------------------------------------
    def operand(self, s, env):
        s = s.strip()
        m = re.match(r"^(?:copy|move) _(\d+)$", s)
        if m:
            n = int(m.group(1))
            if n not in env:
                raise Unsupported("use of unassigned local _%d" % n)
            return env[n]
        m = re.match(r"^(?:copy|move) \(_(\d+)\.(\d+): [^)]+\)$", s)
        if m:
            n, k = int(m.group(1)), int(m.group(2))
            t = env.get(n)
            if not isinstance(t, tuple):
                raise Unsupported("tuple field of non-tuple _%d" % n)
            return t[k]
        m = re.match(r"^(?:copy|move) \(\(\*_(\d+)\)\.(\d+): [^)]+\)$", s)
        if m:
            key = (int(m.group(1)), int(m.group(2)))
            if key not in self.fields:
                raise Unsupported("read of field %d of *_%d (no binding given)" % (key[1], key[0]))
            return self.fields[key]
        m = re.match(r"^const (-?\d+)_([iu](?:8|16|32|64|128|size))$", s)
        if m:
            return mkconst(int(m.group(1)), m.group(2))
        m = re.match(r"^const (true|false)$", s)
        if m:
            return mkconst(m.group(1) == "true", "bool")
        m = re.match(r"^const ([iu](?:8|16|32|64|128|size))::(MIN|MAX)$", s)
        if m:
            lo, hi = trange(m.group(1))
            return mkconst(lo if m.group(2) == "MIN" else hi, m.group(1))
        m = re.match(r"^const ([A-Za-z_][\w:<> ]*)$", s)
        if m:
            return self.mod.const_value(m.group(1).strip())
        raise Unsupported("operand %r" % s)

    # ---- rvalues --------------------------------------------------------------------------
    def binop(self, op, a, b, with_overflow):
        if op in ("Lt", "Le", "Gt", "Ge", "Eq", "Ne"):
            sym = {"Lt": "<", "Le": "<=", "Gt": ">", "Ge": ">=", "Eq": "=", "Ne": "distinct"}[op]
            c = None
            if a.const is not None and b.const is not None:
                c = {"Lt": a.const < b.const, "Le": a.const <= b.const, "Gt": a.const > b.const,
                     "Ge": a.const >= b.const, "Eq": a.const == b.const, "Ne": a.const != b.const}[op]
                return mkconst(c, "bool")
            return V("(%s %s %s)" % (sym, a.term, b.term), "bool")
        if a.ty == "bool":
            if op == "BitAnd":
                if a.const is not None and b.const is not None:
                    return mkconst(a.const and b.const, "bool")
                return V("(and %s %s)" % (a.term, b.term), "bool")
            if op == "BitOr":
                if a.const is not None and b.const is not None:
                    return mkconst(a.const or b.const, "bool")
                return V("(or %s %s)" % (a.term, b.term), "bool")
            raise Unsupported("bool op " + op)
        ty = a.ty
        lo, hi = trange(ty)
        both = a.const is not None and b.const is not None
        if op in ("Add", "Sub", "Mul"):
            if op == "Mul" and a.const is None and b.const is None:
                raise Unsupported("non-constant product (the encoding stays linear)")
            sym = {"Add": "+", "Sub": "-", "Mul": "*"}[op]
            raw = "(%s %s %s)" % (sym, a.term, b.term)
            rc = None
            if both:
                rc = {"Add": a.const + b.const, "Sub": a.const - b.const, "Mul": a.const * b.const}[op]
            if op == "Add":
                rlo, rhi = a.lo + b.lo, a.hi + b.hi
            elif op == "Sub":
                rlo, rhi = a.lo - b.hi, a.hi - b.lo
            else:
                cands = [a.lo * b.lo, a.lo * b.hi, a.hi * b.lo, a.hi * b.hi]
                rlo, rhi = min(cands), max(cands)
            val = wrap(raw, ty, rc, rlo, rhi)
            if with_overflow:
                if rc is not None:
                    flag = mkconst(not (lo <= rc <= hi), "bool")
                elif lo <= rlo and rhi <= hi:
                    flag = mkconst(False, "bool")
                else:
                    flag = V("(or (< %s %s) (> %s %s))" % (raw, lit(lo), raw, lit(hi)), "bool")
                return (val, flag)
            return val
        if op in ("Div", "Rem"):
            if b.const is None:
                raise Unsupported("division by a non-constant")
            if b.const == 0:
                raise Unsupported("division by constant zero")
            if both:
                q = abs(a.const) // abs(b.const)
                if (a.const < 0) != (b.const < 0):
                    q = -q
                r = a.const - q * b.const
                return wrap(None, ty, q if op == "Div" else r)
            if b.const < 0:
                raise Unsupported("division by a negative constant")
            if a.lo >= 0:
                t = "(%s %s %s)" % ("div" if op == "Div" else "mod", a.term, b.term)
                if op == "Div":
                    return V(t, ty, None, a.lo // b.const, a.hi // b.const)
                return V(t, ty, None, 0, min(a.hi, b.const - 1))
            t = tdiv(a.term, b.term) if op == "Div" else trem(a.term, b.term)
            return V(t, ty)
        if op in ("Shl", "Shr"):
            if b.const is None:
                raise Unsupported("shift by a non-constant")
            k = b.const
            if op == "Shl":
                if a.const is not None:
                    return wrap(None, ty, a.const << k)
                # bits shifted out are lost silently (Rust checks only the shift amount)
                return wrap("(* %s %s)" % (a.term, lit(1 << k)), ty, None, a.lo << k, a.hi << k)
            if a.const is not None:
                return mkconst(a.const >> k, ty)
            return V("(div %s %s)" % (a.term, lit(1 << k)), ty, None, a.lo >> k, a.hi >> k)  # floor = arithmetic shift
        if op == "BitAnd":
            for x, y in ((a, b), (b, a)):
                if y.const is not None and y.const >= 0 and (y.const & (y.const + 1)) == 0 and INT_T[ty][0] == 0:
                    if x.const is not None:
                        return mkconst(x.const & y.const, ty)
                    return V("(mod %s %s)" % (x.term, lit(y.const + 1)), ty, None, 0, y.const)
            if both:
                return mkconst(a.const & b.const, ty)
            raise Unsupported("BitAnd with a mask that is not 2^k-1")
        if op in ("BitOr", "BitXor") and both:
            return mkconst(a.const | b.const if op == "BitOr" else a.const ^ b.const, ty)
        raise Unsupported("binary operator %s" % op)

    def rvalue(self, s, env, lhs_ty):
        s = s.strip()
        m = re.match(r"^(.*) as ([\w]+) \(IntToInt\)$", s)
        if m:
            v = self.operand(m.group(1), env)
            if v.ty == "bool":
                raise Unsupported("bool to int cast")
            return wrap(v.term, m.group(2), v.const, v.lo, v.hi)
        m = re.match(r"^(Add|Sub|Mul)WithOverflow\((.*), (.*)\)$", s)
        if m:
            return self.binop(m.group(1), self.operand(m.group(2), env), self.operand(m.group(3), env), True)
        m = re.match(r"^(Add|Sub|Mul|Div|Rem|Shl|Shr|BitAnd|BitOr|BitXor|Lt|Le|Gt|Ge|Eq|Ne)(?:Unchecked)?\((.*), (.*)\)$", s)
        if m:
            return self.binop(m.group(1), self.operand(m.group(2), env), self.operand(m.group(3), env), False)
        m = re.match(r"^Not\((.*)\)$", s)
        if m:
            v = self.operand(m.group(1), env)
            if v.ty != "bool":
                raise Unsupported("bitwise Not on integers")
            return mkconst(not v.const, "bool") if v.const is not None else V("(not %s)" % v.term, "bool")
        m = re.match(r"^Neg\((.*)\)$", s)
        if m:
            v = self.operand(m.group(1), env)
            return wrap("(- %s)" % v.term, v.ty, -v.const if v.const is not None else None)
        return self.operand(s, env)

    # ---- control --------------------------------------------------------------------------
    def _block(self, bb, env, pc, obl, out, seen):
        if bb in seen:
            raise Unsupported("loop in MIR (bb%d revisited)" % bb)
        seen = seen | {bb}
        env = dict(env)
        for st in self.fn.blocks[bb]:
            self.steps += 1
            if st.startswith(("StorageLive", "StorageDead", "nop", "FakeRead", "PlaceMention", "Retag", "debug ")):
                continue
            m = re.match(r"^_(\d+) = (.*);$", st)
            if m:
                n = int(m.group(1))
                env[n] = self.rvalue(m.group(2), env, self.fn.locals.get(n))
                continue
            m = re.match(r"^assert\((!?)(.*?), \"(.*?)\".*\) -> \[success: bb(\d+), unwind[^\]]*\];$", st)
            if m:
                neg, cond, msg, tgt = m.groups()
                c = self.operand(cond, env)
                if c.const is not None:
                    ok = (not c.const) if neg else c.const
                    term = "true" if ok else "false"
                else:
                    term = "(not %s)" % c.term if neg else c.term
                obl = obl + [(list(pc), term, msg)]
                pc = pc + [term]
                return self._block(int(tgt), env, pc, obl, out, seen)
            m = re.match(r"^goto -> bb(\d+);$", st)
            if m:
                return self._block(int(m.group(1)), env, pc, obl, out, seen)
            m = re.match(r"^switchInt\((.*)\) -> \[(.*)\];$", st)
            if m:
                v = self.operand(m.group(1), env)
                arms = [a.strip() for a in m.group(2).split(",")]
                taken = []
                for a in arms:
                    k, t = a.split(":")
                    t = int(t.strip()[2:])
                    if k.strip() == "otherwise":
                        conds = taken[:]
                        c = "(and %s)" % " ".join("(not %s)" % x for x in conds) if conds else "true"
                    else:
                        kv = int(k)
                        if v.ty == "bool":
                            c = v.term if kv else "(not %s)" % v.term
                            if v.const is not None:
                                c = "true" if bool(kv) == v.const else "false"
                        else:
                            c = "(= %s %s)" % (v.term, lit(kv))
                            if v.const is not None:
                                c = "true" if v.const == kv else "false"
                        taken.append(c)
                    if c == "false":
                        continue
                    self._block(t, env, pc + [c], obl, out, seen)
                return
            if st == "return;":
                out.append((pc, obl, env.get(0)))
                return
            m = re.match(r"^_(\d+) = (.+?)\((.*)\) -> \[return: bb(\d+), unwind[^\]]*\];$", st)
            if m:
                raise Unsupported("call to %s (inline kernels by composing define-funs instead)" % m.group(2))
            raise Unsupported("statement %r" % st)
        raise Unsupported("block bb%d falls through" % bb)


def define_fun(mod, suffix, smtname, fields=None):
    """-> SMT-LIB text defining <smtname>(x...) : Int (value) and <smtname>_ok(x...) : Bool
    (no MIR assert fails = the function does not panic), plus meta data.  `fields` binds reads
    of fields behind a reference parameter ((param, field index) -> integer constant, type)."""
    fn = mod.find(suffix)
    fb = {k: mkconst(v[0], v[1]) for k, v in (fields or {}).items()}
    args = []
    iparams = []
    for i, t in fn.params:
        if t not in INT_T:
            if any(k[0] == i for k in fb):
                args.append(None)   # a reference whose fields are bound
                continue
            raise Unsupported("parameter type %s" % t)
        args.append(V("x%d" % i, t))
        iparams.append((i, t))
    ex = Exec(mod, fn, args, fb)
    paths = ex.run()
    if not paths:
        raise Unsupported("no path returns")
    sig = " ".join("(x%d Int)" % i for i, _ in iparams)

    def conj(xs):
        xs = [x for x in xs if x != "true"]
        return "true" if not xs else (xs[0] if len(xs) == 1 else "(and %s)" % " ".join(xs))
    val = paths[-1][2].term
    for pc, _, rv in reversed(paths[:-1]):
        val = "(ite %s %s %s)" % (conj(pc), rv.term, val)
    obls = []
    for pc, ob, _ in paths:
        for opc, term, msg in ob:
            obls.append("(=> %s %s)" % (conj(opc), term))
    obls = sorted(set(obls))
    text = "(define-fun %s (%s) Int %s)\n(define-fun %s_ok (%s) Bool %s)\n" % (
        smtname, sig, val, smtname, sig, conj(obls))
    dom = " ".join("(and (>= x%d %s) (<= x%d %s))" % (i, lit(trange(t)[0]), i, lit(trange(t)[1])) for i, t in iparams)
    return dict(text=text, name=fn.name, params=iparams, ret=fn.ret, paths=len(paths),
                obligations=len(obls), steps=ex.steps, domain=dom)
