# ll2smt: LLVM IR (clang -O0 + mem2reg) of a straight-line integer C function -> SMT-LIB Int term.
# Used for the PLL-word kernels of Semtech's reference driver (C13): the C side of the
# Rust-vs-C equivalence query, next to mir2smt for the Rust side.
#
# Supported: one basic block; add sub mul udiv urem shl lshr (shift by a constant) and/or with a
# low-bit mask constant, zext, trunc, ret; iN types.  Every value is kept as a mathematical integer
# in [0, 2^N); each operation is reduced mod 2^N (C unsigned arithmetic wraps).  Anything else
# raises Unsupported (the job then answers "inconclusive", never "held").
import re, subprocess, os


class Unsupported(Exception):
    pass


def emit_ir(c_file, incdirs, out_ll, extra=()):
    """clang -O0 (optnone disabled) | opt -mem2reg : SSA without any arithmetic rewriting"""
    clang = ["clang-14", "-O0", "-Xclang", "-disable-O0-optnone", "-S", "-emit-llvm", "-o", "-"] + list(extra) + ["-I" + d for d in incdirs] + [c_file]
    p1 = subprocess.run(clang, stdout=subprocess.PIPE, stderr=subprocess.PIPE)
    if p1.returncode != 0:
        raise Unsupported("clang failed: " + p1.stderr.decode()[-300:])
    opt = "/usr/lib/llvm-14/bin/opt"
    p2 = subprocess.run([opt, "-S", "-mem2reg", "-o", out_ll], input=p1.stdout, stdout=subprocess.PIPE, stderr=subprocess.PIPE)
    if p2.returncode != 0:
        raise Unsupported("opt -mem2reg failed: " + p2.stderr.decode()[-300:])
    return open(out_ll).read()


def function_body(ll, name):
    m = re.search(r"^define [^\n]*@%s\(([^)]*)\)[^\n]*\{\n(.*?)^\}" % re.escape(name), ll, re.S | re.M)
    if not m:
        raise Unsupported("function %s not found in the IR" % name)
    params = []
    for p in m.group(1).split(","):
        p = p.strip()
        if not p:
            continue
        pm = re.match(r"i(\d+)(?: \w+)* (%[\w.]+)$", p)
        if not pm:
            raise Unsupported("parameter form: " + p)
        params.append((pm.group(2), int(pm.group(1))))
    return params, m.group(2)


def translate(ll, name, smtname):
    params, body = function_body(ll, name)
    env = {}     # %n -> (term, width)
    for i, (p, w) in enumerate(params):
        env[p] = ("p%d" % i, w)
    lets = []
    nsteps = 0

    def val(tok, w):
        tok = tok.strip()
        if tok.startswith("%"):
            if tok not in env:
                raise Unsupported("use before definition: " + tok)
            t, tw = env[tok]
            if tw != w:
                raise Unsupported("width mismatch on " + tok)
            return t, None
        n = int(tok)
        if n < 0:
            n += 1 << w
        return str(n), n

    ret = None
    for line in body.splitlines():
        s = line.split(";")[0].strip()
        if not s:
            continue
        if re.match(r"^[\w.]+:$", s):
            raise Unsupported("more than one basic block")
        m = re.match(r"ret i(\d+) (.+)$", s)
        if m:
            ret = val(m.group(2), int(m.group(1)))[0]
            continue
        m = re.match(r"(%[\w.]+) = (zext|trunc) i(\d+) (\S+) to i(\d+)$", s)
        if m:
            dst, opn, w1, a, w2 = m.group(1), m.group(2), int(m.group(3)), m.group(4), int(m.group(5))
            t, _ = val(a, w1)
            term = t if opn == "zext" else "(mod %s %d)" % (t, 1 << w2)
            v = "v%d" % len(lets)
            lets.append((v, term))
            env[dst] = (v, w2)
            nsteps += 1
            continue
        m = re.match(r"(%[\w.]+) = (add|sub|mul|udiv|urem|shl|lshr|and|or)((?: nuw| nsw| exact)*) i(\d+) ([^,]+), (.+)$", s)
        if m:
            dst, opn, flags, w, a, b = m.group(1), m.group(2), m.group(3), int(m.group(4)), m.group(5), m.group(6)
            if "nsw" in flags:
                raise Unsupported("signed arithmetic (nsw) in " + s)
            (ta, ca), (tb, cb) = val(a, w), val(b, w)
            M = 1 << w
            if opn == "add":
                term = "(mod (+ %s %s) %d)" % (ta, tb, M)
            elif opn == "sub":
                term = "(mod (- %s %s) %d)" % (ta, tb, M)
            elif opn == "mul":
                term = "(mod (* %s %s) %d)" % (ta, tb, M)
            elif opn in ("udiv", "urem"):
                if cb is None or cb == 0:
                    raise Unsupported("division by a non-constant or zero")
                term = "(%s %s %s)" % ("div" if opn == "udiv" else "mod", ta, tb)
            elif opn in ("shl", "lshr"):
                if cb is None or cb >= w:
                    raise Unsupported("shift by a non-constant")
                term = "(mod (* %s %d) %d)" % (ta, 1 << cb, M) if opn == "shl" else "(div %s %d)" % (ta, 1 << cb)
            else:
                c, t = (cb, ta) if cb is not None else (ca, tb)
                if c is None or opn != "and" or (c & (c + 1)) != 0:
                    raise Unsupported("bitwise operation other than a low-bit mask: " + s)
                term = "(mod %s %d)" % (t, c + 1)
            v = "v%d" % len(lets)
            lets.append((v, term))
            env[dst] = (v, w)
            nsteps += 1
            continue
        raise Unsupported("instruction not supported: " + s)
    if ret is None:
        raise Unsupported("no ret")
    term = ret
    for v, t in reversed(lets):
        term = "(let ((%s %s)) %s)" % (v, t, term)
    args = " ".join("(p%d Int)" % i for i in range(len(params)))
    return dict(name=name, steps=nsteps, text="(define-fun %s (%s) Int %s)\n" % (smtname, args, term))


def native_eval_c(c_file, incdirs, fname, samples, workdir, extra=()):
    """compile the real C function and evaluate it on `samples` (translator validation)"""
    drv = os.path.join(workdir, "ll2smt_native_%s.c" % fname)
    exe = os.path.join(workdir, "ll2smt_native_%s" % fname)
    open(drv, "w").write('#include <stdio.h>\n#include <stdint.h>\n#include <stdlib.h>\nuint32_t %s(uint32_t);\n'
                         'int main(int c, char** v) { for (int i = 1; i < c; i++) printf("%%u\\n", %s((uint32_t)strtoul(v[i], 0, 10))); return 0; }\n' % (fname, fname))
    # only the kernel itself is linked (llvm-extract): the rest of the driver needs a HAL
    ll = exe + ".ll"
    p1 = subprocess.run(["clang-14", "-O0", "-S", "-emit-llvm", "-o", ll] + list(extra) + ["-I" + d for d in incdirs] + [c_file], stdout=subprocess.PIPE, stderr=subprocess.STDOUT)
    if p1.returncode != 0:
        raise Unsupported("native build of the C file failed: " + p1.stdout.decode()[-300:])
    p1 = subprocess.run(["/usr/lib/llvm-14/bin/llvm-extract", "-S", "--func=" + fname, "-o", exe + ".x.ll", ll], stdout=subprocess.PIPE, stderr=subprocess.STDOUT)
    if p1.returncode != 0:
        raise Unsupported("llvm-extract failed: " + p1.stdout.decode()[-300:])
    p1 = subprocess.run(["clang-14", "-O0", "-Wno-override-module", "-o", exe, drv, exe + ".x.ll"], stdout=subprocess.PIPE, stderr=subprocess.STDOUT)
    if p1.returncode != 0:
        raise Unsupported("native link failed: " + p1.stdout.decode()[-300:])
    out = subprocess.run([exe] + [str(x) for x in samples], stdout=subprocess.PIPE).stdout.decode().split()
    if len(out) != len(samples):
        raise Unsupported("native C evaluation returned %d values for %d samples" % (len(out), len(samples)))
    return {x: int(y) for x, y in zip(samples, out)}
