# Extra (non-Kani) engines: E2 mir2smt, E3 CBMC on the Semtech C reference.  Each job is a callable
# job(logdir) -> dict(entry=<harness-like dict with id, verdict, reason, bounds, ...>,
#                     verdict='held'|'violated'|'inconclusive', queries=int, solver_time_s=float,
#                     validated=int, replay=<path or None>)
def jobs_for(prop, tier):
    return []
