# Extra (non-Kani) engines: E2 mir2smt (z3 + cvc5 on the SMT-LIB translation of rustc MIR),
# E3 CBMC on the Semtech C reference.  Each job is a callable
#   job(logdir) -> dict(entry=<harness-like dict>, verdict='held'|'violated'|'inconclusive',
#                       queries=int, solver_time_s=float, validated=int, replay=<path or None>)
import os, re, json, time, subprocess, shutil
import lrv, mir2smt

NIGHTLY = "nightly"


def _run(cmd, cwd=None, timeout=600, env=None, inp=None):
    t0 = time.time()
    try:
        p = subprocess.run(cmd, cwd=cwd, timeout=timeout, env=env or lrv.ENV, input=inp,
                           stdout=subprocess.PIPE, stderr=subprocess.STDOUT)
        return p.returncode, p.stdout.decode(errors="replace"), time.time() - t0
    except subprocess.TimeoutExpired as e:
        return -9, (e.stdout or b"").decode(errors="replace") + "\nTIMEOUT", time.time() - t0


def mir_dump(scratch, package, logdir):
    """textual MIR of <package> at mir-opt-level 0 with overflow checks, from the scratch copy"""
    src = os.path.join(scratch, "src")
    out = os.path.join(logdir, "%s.mir" % package)
    cmd = ["cargo", "+" + NIGHTLY, "rustc", "--offline", "-p", package, "--lib",
           "--target-dir", os.path.join(scratch, "target-mir"), "--",
           "-Zunpretty=mir", "-Zmir-opt-level=0", "-C", "debug-assertions=off", "-C", "overflow-checks=on"]
    env = dict(lrv.ENV)
    rc, text, dt = _run(cmd, cwd=src, timeout=900, env=env)
    # stdout carries the MIR, cargo's progress goes to stderr (merged): keep MIR lines only
    open(out, "w").write(text)
    if rc != 0 or "fn " not in text:
        raise lrv.Inconclusive("MIR dump of %s failed (rc=%s): %s" % (package, rc, text[-400:]))
    return text, dt


# z3 4.8.12 (/usr/bin/z3) times out (> 60 s) on the div/mod terms of the SX126x kernel that
# z3 5.1.0 (z3-new) and cvc5 decide in < 1 s: the solver pair is z3-new + cvc5.
SOLVERS = ("z3-new", "cvc5")


def solve(smt, solver, timeout=300):
    cmd = {"z3": ["z3", "-in", "-T:%d" % timeout], "z3-new": ["z3-new", "-in", "-T:%d" % timeout], "cvc5": ["cvc5", "--lang", "smt2", "--incremental", "--produce-models", "--tlimit=%d" % (timeout * 1000)]}[solver]
    rc, out, dt = _run(cmd, inp=smt.encode(), timeout=timeout + 30)
    return out, dt


def parse_answers(out):
    """-> list of ('sat'|'unsat'|'unknown'|'error', model text) per (check-sat)"""
    res = []
    cur = None
    for line in out.splitlines():
        s = line.strip()
        if s in ("sat", "unsat", "unknown"):
            cur = [s, ""]
            res.append(cur)
        elif s.startswith("(error") and cur is not None and cur[0] == "unsat" and ("model" in s.lower() or "get value" in s.lower()):
            pass  # (get-value) after an unsat answer: expected, not an inconclusive query
        elif s.startswith("(error") or "TIMEOUT" in s or s.startswith("timeout"):
            res.append(["error", s])
            cur = None
        elif cur is not None:
            cur[1] += s + " "
    return res


DUMP_SX126X = r'''
#[cfg(test)]
mod verif_dump_pll {
    use super::*;
    struct D;
    #[derive(Debug)]
    struct E;
    impl embedded_hal_async::spi::Error for E { fn kind(&self) -> embedded_hal_async::spi::ErrorKind { embedded_hal_async::spi::ErrorKind::Other } }
    impl embedded_hal_async::spi::ErrorType for D { type Error = E; }
    impl embedded_hal_async::spi::SpiDevice<u8> for D {
        async fn transaction(&mut self, _o: &mut [embedded_hal_async::spi::Operation<'_, u8>]) -> Result<(), E> { Ok(()) }
    }
    impl crate::InterfaceVariant for D {
        async fn reset(&mut self, _d: &mut impl embedded_hal_async::delay::DelayNs) -> Result<(), RadioError> { Ok(()) }
        async fn wait_on_busy(&mut self) -> Result<(), RadioError> { Ok(()) }
        async fn await_irq(&mut self) -> Result<(), RadioError> { Ok(()) }
        async fn enable_rf_switch_rx(&mut self) -> Result<(), RadioError> { Ok(()) }
        async fn enable_rf_switch_tx(&mut self) -> Result<(), RadioError> { Ok(()) }
        async fn disable_rf_switch(&mut self) -> Result<(), RadioError> { Ok(()) }
    }
    #[test]
    fn verif_dump_pll_sx126x() {
        let s = std::fs::read_to_string(std::env::var("LRV_INPUTS").unwrap()).unwrap();
        for l in s.lines() {
            let f: u32 = l.trim().parse().unwrap();
            let r = std::panic::catch_unwind(|| Sx126x::<D, D, Sx1262>::convert_freq_in_hz_to_pll_step(f));
            match r { Ok(v) => println!("LRV f126 {} {}", f, v), Err(_) => println!("LRV f126 {} PANIC", f) }
        }
    }
}
'''
DUMP_SX127X = r'''
#[cfg(test)]
mod verif_dump_pll {
    use super::*;
    #[test]
    fn verif_dump_pll_sx127x() {
        let s = std::fs::read_to_string(std::env::var("LRV_INPUTS").unwrap()).unwrap();
        for l in s.lines() {
            let f: u32 = l.trim().parse().unwrap();
            match std::panic::catch_unwind(|| freq_to_pll_step(f)) { Ok(v) => println!("LRV f127 {} {}", f, v), Err(_) => println!("LRV f127 {} PANIC", f) }
            match std::panic::catch_unwind(|| pll_step_to_freq(f)) { Ok(v) => println!("LRV g127 {} {}", f, v), Err(_) => println!("LRV g127 {} PANIC", f) }
        }
    }
}
'''


def native_eval(scratch, inputs, logdir):
    """run the real compiled kernels on `inputs` (list of u32) -> {('f126', x): value|'PANIC', ...}"""
    src = os.path.join(scratch, "src")
    for rel, text in (("lora-phy/src/sx126x/mod.rs", DUMP_SX126X), ("lora-phy/src/sx127x/mod.rs", DUMP_SX127X)):
        p = os.path.join(src, rel)
        body = open(p).read()
        if "mod verif_dump_pll" not in body:
            open(p, "a").write(text)
    inp = os.path.join(logdir, "pll_inputs.txt")
    open(inp, "w").write("\n".join(str(x) for x in inputs) + "\n")
    env = dict(lrv.ENV)
    env["LRV_INPUTS"] = inp
    cmd = ["cargo", "test", "--offline", "-p", "lora-phy", "--lib", "--target-dir", os.path.join(scratch, "target-native"),
           "verif_dump_pll", "--", "--nocapture", "--test-threads", "1"]
    rc, out, dt = _run(cmd, cwd=src, timeout=1500, env=env)
    open(os.path.join(logdir, "pll_native.log"), "w").write(out)
    res = {}
    for m in re.finditer(r"LRV (\w+) (\d+) (\d+|PANIC)", out):
        res[(m.group(1), int(m.group(2)))] = m.group(3) if m.group(3) == "PANIC" else int(m.group(3))
    if not res:
        raise lrv.Inconclusive("native evaluation of the PLL kernels produced nothing (rc=%s): %s" % (rc, out[-300:]))
    return res


# ---- C17: PLL word kernels ------------------------------------------------------------------
FMIN, FMAX = 137_000_000, 1_020_000_000
XTAL = 32_000_000

C17_QUERIES = [
    # (id, kernel, description, negated property over f)
    ("sx126x_no_panic", "f126", "convert_freq_in_hz_to_pll_step never fails an overflow/division check",
     "(not (f126_ok f))"),
    ("sx126x_nearest", "f126", "|word * Fxtal - f * 2^25| <= Fxtal/2  (rounded to nearest, < 0.48 Hz)",
     "(not (<= (abs (- (* (f126 f) 32000000) (* f 33554432))) 16000000))"),
    ("sx127x_no_panic", "f127", "freq_to_pll_step / pll_step_to_freq never fail a check",
     "(not (and (f127_ok f) (g127_ok (f127 f))))"),
    # C17 states "within one synthesiser step (SX127x: under 62 Hz)".  The first version of these
    # two queries demanded the *floor* (what the driver did at the time); that is more than the
    # property states and was corrected when the C13 fix made the driver round to nearest.
    ("sx127x_within_step", "f127", "|word * Fxtal - f * 2^19| < Fxtal  (within one 61.04 Hz step)",
     "(not (< (abs (- (* (f127 f) 32000000) (* f 524288))) 32000000))"),
    ("sx127x_roundtrip", "g127", "|f - pll_step_to_freq(freq_to_pll_step(f))| <= 62 (one 61.04 Hz step plus the truncation of the inverse)",
     "(not (<= (abs (- f (g127 (f127 f)))) 62))"),
]


def check_prop_python(qid, f, nat):
    """re-evaluate a query's property on the *native* outputs for input f (exact integers)"""
    if qid == "sx126x_no_panic":
        return nat.get(("f126", f)) != "PANIC"
    if qid == "sx126x_nearest":
        w = nat.get(("f126", f))
        return w != "PANIC" and abs(w * XTAL - f * (1 << 25)) <= XTAL // 2
    if qid == "sx127x_no_panic":
        return nat.get(("f127", f)) != "PANIC"
    if qid == "sx127x_within_step":
        w = nat.get(("f127", f))
        return w != "PANIC" and abs(w * XTAL - f * (1 << 19)) < XTAL
    return True


def job_c17_pll(tier):
    def job(logdir):
        t0 = time.time()
        entry = dict(id="pll_word_mir2smt", file="lib/engines.py", anchor="lora-phy/src/sx126x/mod.rs, lora-phy/src/sx127x/mod.rs",
                     build="mir", bounds="every frequency %d..=%d Hz (8.83e8 values) as one integer variable per query; z3 and cvc5 must agree" % (FMIN, FMAX),
                     assumes=["mir2smt translation of rustc's MIR (opt-level 0, overflow checks on) is validated on every run against the compiled functions on sample inputs",
                              "SX126x/SX127x crystal 32 MHz; SX126x step 2^-25, SX127x step 2^-19 of Fxtal (datasheets)"],
                     encodes=["sx126x::Sx126x::convert_freq_in_hz_to_pll_step", "sx127x::freq_to_pll_step", "sx127x::pll_step_to_freq"],
                     outside=["frequencies outside 137..1020 MHz"])
        res = dict(entry=entry, verdict="held", queries=0, solver_time_s=0.0, validated=0, replay=None)
        scratch = lrv.make_scratch("C17-mir")
        try:
            text, dt = mir_dump(scratch, "lora-phy", logdir)
            mod = mir2smt.Module(text)
            sx126 = [n for n in mod.funcs if n.startswith("sx126x::") and n.endswith("::convert_freq_in_hz_to_pll_step")]
            if len(sx126) != 1:
                raise lrv.Inconclusive("sx126x convert_freq_in_hz_to_pll_step not found exactly once in the MIR dump")
            defs = [mir2smt.define_fun(mod, sx126[0], "f126"), mir2smt.define_fun(mod, "freq_to_pll_step", "f127"),
                    mir2smt.define_fun(mod, "pll_step_to_freq", "g127")]
            prelude = "(set-logic ALL)\n" + "".join(d["text"] for d in defs)
            entry["translated"] = [dict(fn=d["name"], paths=d["paths"], obligations=d["obligations"], mir_statements=d["steps"]) for d in defs]
            # ---- translator validation: encoding vs compiled code on sample inputs
            samples = [FMIN, FMAX, 433_175_000, 868_100_000, 868_300_000, 869_525_000, 902_300_000, 903_900_000, 915_000_000,
                       923_300_000, 927_500_000, 470_300_000, 0, 1, 15_624, 15_625, 4_294_967_295, 2_147_483_648, 999_999_999]
            samples += [863_000_000 + 100 * k * 997 for k in range(40)]
            nat = native_eval(scratch, samples, logdir)
            q = prelude
            for x in samples:
                q += "(push)(declare-const r1 Int)(declare-const r2 Int)(declare-const r3 Int)(assert (= r1 (f126 %d)))(assert (= r2 (f127 %d)))(assert (= r3 (g127 %d)))(check-sat)(get-value (r1 r2 r3 (f126_ok %d) (g127_ok %d)))(pop)\n" % (x, x, x, x, x)
            out, dt = solve(q, SOLVERS[0], 300)
            ans = parse_answers(out)
            if len(ans) != len(samples) or any(a[0] != "sat" for a in ans):
                raise lrv.Inconclusive("translator validation: solver did not evaluate the encoding: " + out[:300])
            bad = []
            for x, a in zip(samples, ans):
                vals = re.findall(r"\((?:r\d|\([^()]*\)) (\(- \d+\)|\d+|true|false)\)", a[1])
                vals = re.findall(r"(true|false|\(- \d+\)|\d+)\)", a[1])
                nums = re.findall(r"\(r(\d) (\d+)\)", a[1])
                oks = re.findall(r"_ok \d+\) (true|false)\)", a[1])
                enc = {int(k): int(v) for k, v in nums}
                if len(enc) != 3 or len(oks) != 2:
                    raise lrv.Inconclusive("translator validation: cannot read model: " + a[1][:200])
                n126, n127, g127 = nat.get(("f126", x)), nat.get(("f127", x)), nat.get(("g127", x))
                if (n126 == "PANIC") != (oks[0] == "false") or (n126 != "PANIC" and n126 != enc[1]):
                    bad.append(("f126", x, n126, enc[1], oks[0]))
                if n127 != enc[2]:
                    bad.append(("f127", x, n127, enc[2]))
                if (g127 == "PANIC") != (oks[1] == "false") or (g127 != "PANIC" and g127 != enc[3]):
                    bad.append(("g127", x, g127, enc[3], oks[1]))
                res["validated"] += 3
            if bad:
                raise lrv.Inconclusive("translator validation FAILED (encoding disagrees with compiled code): %r" % bad[:4])
            # ---- the queries
            verdicts = []
            for qid, kern, desc, neg in C17_QUERIES:
                q = prelude + "(declare-const f Int)\n(assert (and (>= f %d) (<= f %d)))\n(assert %s)\n(check-sat)\n(get-value (f))\n" % (FMIN, FMAX, neg)
                r = {}
                for solver in SOLVERS:
                    out, dt = solve(q, solver, 240 if tier == "quick" else 1800)
                    res["solver_time_s"] += dt
                    a = parse_answers(out)
                    r[solver] = (a[0] if a else ["error", out[:200]]) + [round(dt, 2)]
                    res["queries"] += 1
                verdicts.append({"query": qid, "property": desc, SOLVERS[0]: r[SOLVERS[0]][0], SOLVERS[1]: r[SOLVERS[1]][0], SOLVERS[0] + "_s": r[SOLVERS[0]][2], SOLVERS[1] + "_s": r[SOLVERS[1]][2]})
                kinds = {r[SOLVERS[0]][0], r[SOLVERS[1]][0]}
                if kinds == {"unsat"}:
                    continue
                if "sat" in kinds:
                    model = r[SOLVERS[0]][1] if r[SOLVERS[0]][0] == "sat" else r[SOLVERS[1]][1]
                    m = re.search(r"\(f (\d+)\)", model)
                    fval = int(m.group(1)) if m else None
                    ok_native = True
                    if fval is not None:
                        n2 = native_eval(scratch, [fval], logdir)
                        if qid == "sx127x_roundtrip":
                            w = n2.get(("f127", fval))
                            n3 = native_eval(scratch, [w], logdir) if w != "PANIC" else {}
                            g = n3.get(("g127", w))
                            ok_native = g != "PANIC" and g is not None and abs(fval - g) <= 62
                        else:
                            ok_native = check_prop_python(qid, fval, n2)
                        res["validated"] += 1
                    if fval is not None and not ok_native:
                        rdir = os.path.join(lrv.VERIF, "replays", "C17")
                        os.makedirs(rdir, exist_ok=True)
                        rp = os.path.join(rdir, "%s.json" % qid)
                        json.dump(dict(query=qid, property=desc, frequency_hz=fval, native=str(n2)), open(rp, "w"), indent=1)
                        res["verdict"] = "violated"
                        res["replay"] = rp
                        entry["reason"] = "C17: %s fails for f = %d Hz (reproduced by calling the compiled function)" % (desc, fval)
                        break
                    res["verdict"] = "inconclusive"
                    entry["reason"] = "solver model for %s did not reproduce natively (f=%s)" % (qid, fval)
                    break
                res["verdict"] = "inconclusive"
                entry["reason"] = "query %s: %s=%s %s=%s" % (qid, SOLVERS[0], r[SOLVERS[0]][0], SOLVERS[1], r[SOLVERS[1]][0])
                break
            entry["queries"] = verdicts
        except (lrv.Inconclusive, mir2smt.Unsupported) as e:
            res["verdict"] = "inconclusive"
            entry["reason"] = str(e)
        entry["verdict"] = res["verdict"]
        entry.setdefault("reason", "")
        entry["cbmc_checks"] = res["queries"]
        entry["covers"] = "n/a"
        entry["solver_time_s"] = round(res["solver_time_s"], 2)
        entry["wall_s"] = round(time.time() - t0, 1)
        return res
    return job


# ---- C16: symbol <-> millisecond helpers (moved from Kani to E2: a 32-bit divider per (SF, BW)
# took CBMC 370 s for ten bandwidths; the integer encoding is decided in milliseconds) ----------
DUMP_MOD = r"""
#[cfg(test)]
mod verif_dump_symbols {
    use super::*;
    #[test]
    fn verif_dump_symbols() {
        let sfs = [SpreadingFactor::_5, SpreadingFactor::_6, SpreadingFactor::_7, SpreadingFactor::_8, SpreadingFactor::_9, SpreadingFactor::_10, SpreadingFactor::_11, SpreadingFactor::_12];
        let bws = [Bandwidth::_7KHz, Bandwidth::_10KHz, Bandwidth::_15KHz, Bandwidth::_20KHz, Bandwidth::_31KHz, Bandwidth::_41KHz, Bandwidth::_62KHz, Bandwidth::_125KHz, Bandwidth::_250KHz, Bandwidth::_500KHz];
        for (i, sf) in sfs.iter().enumerate() {
            for (j, bw) in bws.iter().enumerate() {
                let p = BaseBandModulationParams::new(*sf, *bw, CodingRate::_4_5);
                // symbols_to_ms(1000) = t_sym_us * 1000 / 1000: the (private) symbol time
                println!("LRV t {} {} {}", i, j, p.symbols_to_ms(1000));
                for x in [0u32, 1, 7, 999, 8189, 4000] {
                    println!("LRV stm {} {} {} {}", i, j, x, p.symbols_to_ms(x));
                }
                for x in [0u32, 1, 5, 1000, 6000, 65535] {
                    println!("LRV dis {} {} {} {}", i, j, x, p.delay_in_symbols(x));
                }
            }
        }
    }
}
"""
SF_NUM = [5, 6, 7, 8, 9, 10, 11, 12]
BW_HZ = [7810, 10420, 15630, 20830, 31250, 41670, 62500, 125000, 250000, 500000]


def job_c16_symbols(tier):
    def job(logdir):
        t0 = time.time()
        entry = dict(id="symbol_conversions_mir2smt", file="lib/engines.py", anchor="lora-modulation/src/lib.rs", build="mir",
                     bounds="all 80 (SF, BW) pairs (symbol time bound to the value the compiled code uses); symbols_to_ms for every symbols 0..=8189; delay_in_symbols for every delay 0..=65535 ms whose quotient fits u16; %s and %s must agree" % SOLVERS,
                     assumes=["mir2smt translation validated on every run against the compiled functions on sample inputs",
                              "arguments outside the stated ranges (products beyond u32, quotients beyond u16) are outside the documented domain of these two helpers"],
                     encodes=["BaseBandModulationParams::symbols_to_ms", "BaseBandModulationParams::delay_in_symbols"], outside=[])
        res = dict(entry=entry, verdict="held", queries=0, solver_time_s=0.0, validated=0, replay=None)
        scratch = lrv.make_scratch("C16-mir")
        try:
            text, dt = mir_dump(scratch, "lora-modulation", logdir)
            mod = mir2smt.Module(text)
            fdis = [n for n in mod.funcs if n.endswith("::delay_in_symbols")]
            fstm = [n for n in mod.funcs if n.endswith("::symbols_to_ms")]
            if len(fdis) != 1 or len(fstm) != 1:
                raise lrv.Inconclusive("delay_in_symbols / symbols_to_ms not found exactly once in the MIR dump")
            # native values: symbol times and samples
            src = os.path.join(scratch, "src")
            p = os.path.join(src, "lora-modulation/src/lib.rs")
            open(p, "a").write(DUMP_MOD)
            rc, out, dtn = _run(["cargo", "test", "--offline", "-p", "lora-modulation", "--lib", "--target-dir", os.path.join(scratch, "target-native"),
                                 "verif_dump_symbols", "--", "--nocapture"], cwd=src, timeout=900)
            open(os.path.join(logdir, "symbols_native.log"), "w").write(out)
            tsym = {}
            samples = []
            for m in re.finditer(r"LRV (t|stm|dis) (\d+) (\d+) (\d+)(?: (\d+))?", out):
                if m.group(1) == "t":
                    tsym[(int(m.group(2)), int(m.group(3)))] = int(m.group(4))
                else:
                    samples.append((m.group(1), int(m.group(2)), int(m.group(3)), int(m.group(4)), int(m.group(5))))
            if len(tsym) != 80:
                raise lrv.Inconclusive("native evaluation did not yield 80 symbol times: " + out[-300:])
            smt = "(set-logic ALL)\n"
            for (i, j), t in sorted(tsym.items()):
                # independent cross-check of the symbol time itself (floor(2^SF * 1e6 / BW))
                if t != (1 << SF_NUM[i]) * 1000000 // BW_HZ[j]:
                    res["verdict"] = "violated"
                    entry["reason"] = "C16: symbol time of SF%d/%d Hz is %d us, expected %d" % (SF_NUM[i], BW_HZ[j], t, (1 << SF_NUM[i]) * 1000000 // BW_HZ[j])
                d1 = mir2smt.define_fun(mod, fdis[0], "dis_%d_%d" % (i, j), fields={(1, 4): (t, "u32")})
                d2 = mir2smt.define_fun(mod, fstm[0], "stm_%d_%d" % (i, j), fields={(1, 4): (t, "u32")})
                smt += d1["text"] + d2["text"]
            # translator validation
            vq = smt
            for (k, i, j, x, v) in samples:
                vq += "(push)(assert (not (= (%s_%d_%d %d) %d)))(check-sat)(pop)\n" % (k, i, j, x, v)
            out, dt = solve(vq, SOLVERS[0], 600)
            ans = parse_answers(out)
            if len(ans) != len(samples) or any(a[0] != "unsat" for a in ans):
                bad = [samples[n] for n, a in enumerate(ans) if a[0] != "unsat"][:3]
                raise lrv.Inconclusive("translator validation FAILED (encoding disagrees with compiled code) on %r" % bad)
            res["validated"] += len(samples)
            # the queries: floor division stated by its defining inequalities
            q = smt + "(declare-const x Int)\n"
            qlist = []
            for (i, j), t in sorted(tsym.items()):
                qlist.append(("stm", i, j, "(and (>= x 0) (<= x 8189))",
                              "(not (and (stm_%d_%d_ok x) (<= (* (stm_%d_%d x) 1000) (* %d x)) (< (* %d x) (* (+ (stm_%d_%d x) 1) 1000))))" % (i, j, i, j, t, t, i, j)))
                qlist.append(("dis", i, j, "(and (>= x 0) (<= x 65535) (< (* x 1000) %d))" % (65536 * t),
                              "(not (and (dis_%d_%d_ok x) (<= (* (dis_%d_%d x) %d) (* x 1000)) (< (* x 1000) (* (+ (dis_%d_%d x) 1) %d))))" % (i, j, i, j, t, i, j, t)))
            for (k, i, j, dom, neg) in qlist:
                q += "(push)(assert %s)(assert %s)(check-sat)(get-value (x))(pop)\n" % (dom, neg)
            verd = {}
            for solver in SOLVERS:
                out, dt = solve(q, solver, 900)
                res["solver_time_s"] += dt
                a = parse_answers(out)
                verd[solver] = a
                res["queries"] += len(a)
            bad = None
            for n, (k, i, j, dom, neg) in enumerate(qlist):
                rs = [verd[sv][n][0] if n < len(verd[sv]) else "error" for sv in SOLVERS]
                if rs == ["unsat", "unsat"]:
                    continue
                bad = (k, i, j, rs, verd[SOLVERS[0]][n][1] if n < len(verd[SOLVERS[0]]) else "")
                break
            entry["queries"] = dict(total=len(qlist), per_solver={sv: len(verd[sv]) for sv in SOLVERS})
            if bad and res["verdict"] == "held":
                k, i, j, rs, model = bad
                if "sat" in rs:
                    m = re.search(r"\(x (\d+)\)", model)
                    rdir = os.path.join(lrv.VERIF, "replays", "C16")
                    os.makedirs(rdir, exist_ok=True)
                    rp = os.path.join(rdir, "symbols_%s_%d_%d.json" % (k, i, j))
                    json.dump(dict(function=k, sf=SF_NUM[i], bw_hz=BW_HZ[j], t_sym_us=tsym[(i, j)], x=int(m.group(1)) if m else None), open(rp, "w"), indent=1)
                    res["verdict"] = "violated"
                    res["replay"] = rp
                    entry["reason"] = "C16: %s is not floor division for SF%d / %d Hz at x = %s" % ({"stm": "symbols_to_ms", "dis": "delay_in_symbols"}[k], SF_NUM[i], BW_HZ[j], m.group(1) if m else "?")
                else:
                    res["verdict"] = "inconclusive"
                    entry["reason"] = "query %s SF%d/%d: %r" % (k, SF_NUM[i], BW_HZ[j], rs)
        except (lrv.Inconclusive, mir2smt.Unsupported) as e:
            res["verdict"] = "inconclusive"
            entry["reason"] = str(e)
        entry["verdict"] = res["verdict"]
        entry.setdefault("reason", "")
        entry["cbmc_checks"] = res["queries"]
        entry["covers"] = "n/a"
        entry["solver_time_s"] = round(res["solver_time_s"], 2)
        entry["wall_s"] = round(time.time() - t0, 1)
        return res
    return job


# ---- C13: Semtech's reference driver (E3: CBMC on the C sources) and PLL kernel equivalence (E2) --
def _cbmc_props(out):
    """-> list of (name, desc, 'SUCCESS'|'FAILURE'|...) from CBMC's plain-text result listing"""
    return [(m.group(1), m.group(2), m.group(3)) for m in re.finditer(r"^\[([^\]]+)\] (?:line \d+ )?(.*): (SUCCESS|FAILURE|UNKNOWN|ERROR)\s*$", out, re.M)]


def job_c13_reference(chip, tier):
    import c13gen
    from concurrent.futures import ThreadPoolExecutor

    def job(logdir):
        t0 = time.time()
        ops = c13gen.ops_for(chip)
        entry = dict(id="c13_reference_%s" % chip, file="lib/c13gen.py", anchor="SWL2001 %s_driver/src/%s.c (cargo registry, smtc-modem-cores-sys)" % (chip, chip),
                     build="cbmc-c", bounds="%d operations of the byte specification, every parameter value of each (see the Rust-side harnesses c13_%s_*), arbitrary chip answers; --unwind 13 with unwinding assertions" % (len(ops), chip),
                     assumes=["HAL = recording stubs (write/read log the MOSI bytes, reads answer arbitrary bytes)",
                              "a failure on this side means the specification and the reference disagree: reported as inconclusive, it cannot be a defect of lora-rs"],
                     encodes=["%s.c of Semtech's reference driver, every function the specification calls" % chip],
                     outside=["GFSK/LR-FHSS paths of the reference", "HAL timing (busy line, reset)"])
        res = dict(entry=entry, verdict="held", queries=0, solver_time_s=0.0, validated=0, replay=None)
        try:
            src = c13gen.swl_dir(c13gen.C_SRC[chip])
            cfile = os.path.join(logdir, "c13_%s_harness.c" % chip)
            open(cfile, "w").write(c13gen.c_harness(chip))

            def run(o):
                backs = [["--z3"], ["--cvc5"]] if o.get("smt") else [["--sat-solver", "cadical"]]
                outs = []
                for b in backs:
                    cmd = ["cbmc", cfile, "-I" + src, "--function", "h_" + o["id"], "--unwind", "13" if chip == "sx126x" else "260", "--unwinding-assertions"] + c13gen.C_DEFINES.get(chip, []) + b
                    rc, out, dt = _run(cmd, timeout=300)
                    open(os.path.join(logdir, "c13_%s_%s%s.log" % (chip, o["id"], b[0])), "w").write(out)
                    outs.append((rc, out, dt))
                return o, outs
            with ThreadPoolExecutor(max_workers=6) as ex:
                results = list(ex.map(run, ops))
            bad, per = [], []
            for o, outs in results:
                for rc, out, dt in outs:
                    props = _cbmc_props(out)
                    res["queries"] += len(props)
                    res["solver_time_s"] += dt
                    fails = [p for p in props if p[2] != "SUCCESS"]
                    witness = [p for p in fails if "witness: end of" in p[1] and p[2] == "FAILURE"]
                    other = [p for p in fails if p not in witness]
                    if not props or "VERIFICATION" not in out:
                        bad.append("%s: CBMC gave no verdict (rc=%s): %s" % (o["id"], rc, out[-200:].replace("\n", " ")))
                    elif len(witness) != 1:
                        bad.append("%s: reachability witness not violated (harness vacuous?)" % o["id"])
                    elif other:
                        bad.append("%s: %s" % (o["id"], "; ".join("%s %s" % (p[1], p[2]) for p in other[:4])))
                    per.append(dict(op=o["id"], properties=len(props), time_s=round(dt, 2)))
            entry["operations"] = per
            if bad:
                res["verdict"] = "inconclusive"
                entry["reason"] = "reference side of the C13 byte specification: " + " | ".join(bad)[:1500]
        except (lrv.Inconclusive, RuntimeError) as e:
            res["verdict"] = "inconclusive"
            entry["reason"] = str(e)
        entry["verdict"] = res["verdict"]
        entry.setdefault("reason", "")
        entry["cbmc_checks"] = res["queries"]
        entry["covers"] = "%d/%d" % (len(entry.get("operations", [])), len(ops))
        entry["solver_time_s"] = round(res["solver_time_s"], 2)
        entry["wall_s"] = round(time.time() - t0, 1)
        return res
    return job


def job_c13_pll(tier):
    """Rust PLL-word kernels (MIR) == Semtech's C kernels (LLVM IR) for every frequency"""
    import c13gen, ll2smt

    def job(logdir):
        t0 = time.time()
        entry = dict(id="c13_pll_equiv", file="lib/engines.py, lib/ll2smt.py, lib/mir2smt.py", anchor="lora-phy/src/sx126x/mod.rs, lora-phy/src/sx127x/mod.rs vs SWL2001 sx126x.c, sx127x.c",
                     build="mir+llvm-ir", bounds="every frequency %d..=%d Hz as one integer variable; z3 and cvc5 must agree" % (FMIN, FMAX),
                     assumes=["both translators are validated on every run against the natively compiled functions on sample inputs"],
                     encodes=["sx126x::Sx126x::convert_freq_in_hz_to_pll_step", "sx127x::freq_to_pll_step", "sx126x_convert_freq_in_hz_to_pll_step (C)", "sx127x_convert_freq_in_hz_to_pll_step (C)"],
                     outside=["frequencies outside 137..1020 MHz"])
        res = dict(entry=entry, verdict="held", queries=0, solver_time_s=0.0, validated=0, replay=None)
        scratch = lrv.make_scratch("C13-mir")
        try:
            text, dt = mir_dump(scratch, "lora-phy", logdir)
            mod = mir2smt.Module(text)
            sx126 = [n for n in mod.funcs if n.startswith("sx126x::") and n.endswith("::convert_freq_in_hz_to_pll_step")]
            if len(sx126) != 1:
                raise lrv.Inconclusive("sx126x convert_freq_in_hz_to_pll_step not found exactly once in the MIR dump")
            defs = [mir2smt.define_fun(mod, sx126[0], "f126"), mir2smt.define_fun(mod, "freq_to_pll_step", "f127")]
            cdefs = []
            cnat = {}
            samples = [FMIN, FMAX, 433_175_000, 868_100_000, 868_300_000, 869_525_000, 902_300_000, 903_900_000, 915_000_000,
                       923_300_000, 927_500_000, 470_300_000, 999_999_999] + [863_000_000 + 100 * k * 997 for k in range(40)]
            for chip, fn, smt in (("sx126x", "sx126x_convert_freq_in_hz_to_pll_step", "c126"), ("sx127x", "sx127x_convert_freq_in_hz_to_pll_step", "c127")):
                src = c13gen.swl_dir(chip)
                cfile = os.path.join(src, chip + ".c")
                extra = c13gen.C_DEFINES.get(chip, [])
                ll = ll2smt.emit_ir(cfile, [src], os.path.join(logdir, chip + ".ll"), extra)
                cdefs.append(ll2smt.translate(ll, fn, smt))
                cnat[smt] = ll2smt.native_eval_c(cfile, [src], fn, samples, logdir, extra)
            prelude = "(set-logic ALL)\n" + "".join(d["text"] for d in defs) + "".join(d["text"] for d in cdefs)
            entry["translated"] = [dict(fn=d["name"], paths=d["paths"], obligations=d["obligations"], mir_statements=d["steps"]) for d in defs] + \
                                  [dict(fn=d["name"], llvm_instructions=d["steps"]) for d in cdefs]
            # translator validation, both sides
            nat = native_eval(scratch, samples, logdir)
            q = prelude
            for x in samples:
                q += "(push)(declare-const r1 Int)(declare-const r2 Int)(declare-const r3 Int)(declare-const r4 Int)(assert (= r1 (f126 %d)))(assert (= r2 (f127 %d)))(assert (= r3 (c126 %d)))(assert (= r4 (c127 %d)))(check-sat)(get-value (r1 r2 r3 r4))(pop)\n" % (x, x, x, x)
            out, dt = solve(q, SOLVERS[0], 300)
            ans = parse_answers(out)
            if len(ans) != len(samples) or any(a[0] != "sat" for a in ans):
                raise lrv.Inconclusive("translator validation: solver did not evaluate the encoding: " + out[:300])
            badv = []
            for x, a in zip(samples, ans):
                enc = {int(k): int(v) for k, v in re.findall(r"\(r(\d) (\d+)\)", a[1])}
                want = {1: nat.get(("f126", x)), 2: nat.get(("f127", x)), 3: cnat["c126"][x], 4: cnat["c127"][x]}
                if enc != want:
                    badv.append((x, enc, want))
                res["validated"] += 4
            if badv:
                raise lrv.Inconclusive("translator validation FAILED (encoding disagrees with compiled code): %r" % badv[:3])
            verdicts = []
            for qid, rs, cs in (("sx126x_pll_word_equal", "f126", "c126"), ("sx127x_pll_word_equal", "f127", "c127")):
                q = prelude + "(declare-const f Int)\n(assert (and (>= f %d) (<= f %d)))\n(assert (not (and (%s_ok f) (= (%s f) (%s f)))))\n(check-sat)\n(get-value (f))\n" % (FMIN, FMAX, rs, rs, cs)
                r = {}
                for solver in SOLVERS:
                    out, dt = solve(q, solver, 240 if tier == "quick" else 1800)
                    res["solver_time_s"] += dt
                    a = parse_answers(out)
                    r[solver] = (a[0] if a else ["error", out[:200]]) + [round(dt, 2)]
                    res["queries"] += 1
                verdicts.append({"query": qid, SOLVERS[0]: r[SOLVERS[0]][0], SOLVERS[1]: r[SOLVERS[1]][0], SOLVERS[0] + "_s": r[SOLVERS[0]][2], SOLVERS[1] + "_s": r[SOLVERS[1]][2]})
                kinds = {r[SOLVERS[0]][0], r[SOLVERS[1]][0]}
                if kinds == {"unsat"}:
                    continue
                if "sat" in kinds:
                    model = r[SOLVERS[0]][1] if r[SOLVERS[0]][0] == "sat" else r[SOLVERS[1]][1]
                    m = re.search(r"\(f (\d+)\)", model)
                    fval = int(m.group(1)) if m else None
                    if fval is not None:
                        n2 = native_eval(scratch, [fval], logdir)
                        chip = "sx126x" if rs == "f126" else "sx127x"
                        src = c13gen.swl_dir(chip)
                        c2 = ll2smt.native_eval_c(os.path.join(src, chip + ".c"), [src], chip + "_convert_freq_in_hz_to_pll_step", [fval], logdir, c13gen.C_DEFINES.get(chip, []))
                        res["validated"] += 1
                        if n2.get((rs, fval)) != c2[fval]:
                            rdir = os.path.join(lrv.VERIF, "replays", "C13")
                            os.makedirs(rdir, exist_ok=True)
                            rp = os.path.join(rdir, "%s.json" % qid)
                            json.dump(dict(query=qid, frequency_hz=fval, rust=str(n2.get((rs, fval))), reference=c2[fval]), open(rp, "w"), indent=1)
                            res["verdict"] = "violated"
                            res["replay"] = rp
                            entry["reason"] = "C13: PLL word for f = %d Hz: Rust driver %s, reference driver %d (both compiled and run natively)" % (fval, n2.get((rs, fval)), c2[fval])
                            break
                    res["verdict"] = "inconclusive"
                    entry["reason"] = "solver model for %s did not reproduce natively (f=%s)" % (qid, fval)
                    break
                res["verdict"] = "inconclusive"
                entry["reason"] = "query %s: %r" % (qid, r)
                break
            entry["queries"] = verdicts
        except (lrv.Inconclusive, mir2smt.Unsupported, ll2smt.Unsupported, RuntimeError) as e:
            res["verdict"] = "inconclusive"
            entry["reason"] = str(e)
        finally:
            shutil.rmtree(scratch, ignore_errors=True)
        entry["verdict"] = res["verdict"]
        entry.setdefault("reason", "")
        entry["cbmc_checks"] = res["queries"]
        entry["covers"] = "n/a"
        entry["solver_time_s"] = round(res["solver_time_s"], 2)
        entry["wall_s"] = round(time.time() - t0, 1)
        return res
    return job


def jobs_for(prop, tier):
    if prop == "C13":
        import c13gen
        return [job_c13_reference(chip, tier) for chip in c13gen.CHIPS] + [job_c13_pll(tier)]
    if prop == "C17":
        return [job_c17_pll(tier)]
    if prop == "C16":
        return [job_c16_symbols(tier)]
    return []
