# C13: one byte-level specification per shared operation, compiled to
#   (a) a Kani harness over the Rust driver (harness/lora-phy/c13_<chip>_gen.rs) and
#   (b) a CBMC harness over Semtech's C reference driver (SWL2001, from the cargo registry).
# Both sides must emit, for every parameter value, exactly the MOSI bytes the specification gives
# (reads are compared in wire-canonical form: a written NOP and a clocked read byte are the same
# byte on the wire).  Rust == spec (Kani) and C == spec (CBMC) give Rust == C.  Nothing in the
# specification is trusted: a wrong literal makes the C side fail (reported as INCONCLUSIVE, it
# cannot be a defect of lora-rs), a driver deviation makes the Rust side fail (VIOLATION after
# native replay).
#
# Expression language (Python syntax, parsed with `ast`): u32 variables (the parameters and the
# `lets`), integer literals, + - * // % << >> & | ^, comparisons, and/or/not, `a if c else b`,
# tbl(i, [..]) (constant table), m(i, p) (MISO byte at wire position p of specification
# transaction i, i.e. what the chip answered), and the opaque kernels pll126(f) / pll127(f)
# (mapped to each side's own PLL conversion; their equality is the E2 job c13_pll_equiv).
import ast, os, re, glob

VERIF = os.path.dirname(os.path.dirname(os.path.abspath(__file__)))


def swl_dir(chip):
    pat = os.path.expanduser("~/.cargo/registry/src/*/smtc-modem-cores-sys-*/SWL2001/lbm_lib/smtc_modem_core/radio_drivers/%s_driver/src" % chip)
    c = sorted(glob.glob(pat))
    if not c:
        raise RuntimeError("Semtech reference driver sources not found: " + pat)
    return c[-1]


# ---- expression compiler ---------------------------------------------------------------------
class Emit(ast.NodeVisitor):
    def __init__(self, lang, side):
        self.lang, self.side = lang, side   # lang 'rs' | 'c'

    def go(self, src):
        if isinstance(src, int):
            src = str(src)
        return self.visit(ast.parse(src, mode="eval").body)

    def visit_Constant(self, n):
        if isinstance(n.value, bool):
            return ("true" if n.value else "false") if self.lang == "rs" else ("1" if n.value else "0")
        return ("%du32" % n.value) if self.lang == "rs" else ("%du" % n.value)

    def visit_Name(self, n):
        return n.id

    def visit_BinOp(self, n):
        a, b = self.visit(n.left), self.visit(n.right)
        op = type(n.op).__name__
        if self.lang == "rs":
            w = {"Add": "wrapping_add", "Sub": "wrapping_sub", "Mult": "wrapping_mul"}
            if op in w:
                return "(%s).%s(%s)" % (a, w[op], b)
            if op in ("LShift", "RShift"):
                return "(%s).%s(%s)" % (a, "wrapping_shl" if op == "LShift" else "wrapping_shr", b)
        s = {"Add": "+", "Sub": "-", "Mult": "*", "FloorDiv": "/", "Mod": "%", "LShift": "<<", "RShift": ">>",
             "BitAnd": "&", "BitOr": "|", "BitXor": "^"}[op]
        return "((%s) %s (%s))" % (a, s, b)

    def visit_Compare(self, n):
        assert len(n.ops) == 1
        s = {"Eq": "==", "NotEq": "!=", "Lt": "<", "LtE": "<=", "Gt": ">", "GtE": ">="}[type(n.ops[0]).__name__]
        return "((%s) %s (%s))" % (self.visit(n.left), s, self.visit(n.comparators[0]))

    def visit_BoolOp(self, n):
        s = " && " if isinstance(n.op, ast.And) else " || "
        return "(" + s.join(self.cond(v) for v in n.values) + ")"

    def visit_UnaryOp(self, n):
        assert isinstance(n.op, ast.Not)
        return "(!%s)" % self.cond(n.operand)

    def cond(self, n):
        """a condition: comparisons/boolean ops as they are, integers as != 0"""
        if isinstance(n, (ast.Compare, ast.BoolOp)) or (isinstance(n, ast.UnaryOp) and isinstance(n.op, ast.Not)):
            return self.visit(n)
        v = self.visit(n)
        return "((%s) != 0)" % v

    def visit_IfExp(self, n):
        c, a, b = self.cond(n.test), self.visit(n.body), self.visit(n.orelse)
        if self.lang == "rs":
            return "(if %s { %s } else { %s })" % (c, a, b)
        return "(%s ? (uint32_t)(%s) : (uint32_t)(%s))" % (c, a, b)

    def visit_Call(self, n):
        f = n.func.id
        if f == "tbl":
            i = self.visit(n.args[0])
            vals = [self.visit(e) for e in n.args[1].elts]
            out = vals[-1]
            for k in range(len(vals) - 2, -1, -1):
                if self.lang == "rs":
                    out = "(if (%s) == %du32 { %s } else { %s })" % (i, k, vals[k], out)
                else:
                    out = "((%s) == %du ? %s : %s)" % (i, k, vals[k], out)
            return out
        if f == "m":
            ti, p = n.args[0].value, n.args[1].value
            row = self.side.row(ti)
            if self.lang == "rs":
                return "(script_at(%d, %d - tx(%d).wlen) as u32)" % (row, p, row)
            return "((uint32_t)RDV[%d][%d - CL[%d]])" % (row, p, row)
        if f == "r":
            a = n.args[0].value
            if self.lang == "rs":
                return "(rf().init(%d) as u32)" % a
            return "((uint32_t)INIT[%d])" % a
        if f in ("pll126", "pll127"):
            a = self.visit(n.args[0])
            if self.lang == "rs":
                return {"pll126": "Sx126x::<MockSpi, MockIv, Sx1262>::convert_freq_in_hz_to_pll_step(%s)",
                        "pll127": "freq_to_pll_step(%s)"}[f] % a
            return {"pll126": "sx126x_convert_freq_in_hz_to_pll_step(%s)", "pll127": "sx127x_convert_freq_in_hz_to_pll_step(%s)"}[f] % a
        raise ValueError("unknown function " + f)


class Side:
    """transaction numbering of one side (transactions marked for the other side only are skipped)"""
    def __init__(self, op, which):
        self.idx = {}
        k = 0
        for i, t in enumerate(op["tx"]):
            if t.get("side", "both") in ("both", which):
                self.idx[i] = k
                k += 1
        self.n = k

    def row(self, i):
        return self.idx[i]


# ---- specification helpers ---------------------------------------------------------------------
FREE = "__free__"


def T(*mosi, **kw):
    """write transaction"""
    d = dict(mosi=list(mosi), rd=0)
    d.update(kw)
    return d


def R(*mosi, rd=1, **kw):
    """read transaction: command bytes, then `rd` bytes clocked with MOSI = 0 (NOPs or reads)"""
    d = dict(mosi=list(mosi), rd=rd)
    d.update(kw)
    return d


def op(id, **kw):
    d = dict(id=id, params=[], lets=[], assume=[], rust_pre="", c_pre="", tx=[], radio=None, note="")
    d.update(kw)
    return d


KIND_RANGE = {"bool": (0, 1), "u8": (0, 255), "u16": (0, 65535), "u32": (0, 0xFFFFFFFF)}


def prange(kind):
    if kind in KIND_RANGE:
        return KIND_RANGE[kind]
    m = re.match(r"idx\((\d+)\)", kind)
    if m:
        return (0, int(m.group(1)) - 1)
    m = re.match(r"range\((\d+),(\d+)\)", kind)
    return (int(m.group(1)), int(m.group(2)))


# ---- native replay of a generated harness (no Kani playback: its unsliced formula needs > 46 GB) ----
def concretise(text, fill):
    """the radio / set-up text of an operation without kani::any(): concrete mocks, config bits from `fill`"""
    t = text.replace("MockSpi::new()", "MockSpi::concrete(%d)" % fill).replace("RegSpi::new()", "RegSpi::concrete(%d)" % fill)
    t = re.sub(r"\bradio_(1262|1261)\(\)", lambda m: "radio_%s_c(%d)" % (m.group(1), fill), t)
    t = re.sub(r"\bradio_wl\((true|false)\)", lambda m: "radio_wl_c(%s, %d)" % (m.group(1), fill), t)
    bits = iter([(fill >> k) & 1 for k in range(8)] * 4)
    t = re.sub(r"kani::any\(\)", lambda m: "true" if next(bits) else "false", t)
    return t


def head(hid, o, replay):
    """opening lines of the proof harness or of replay test number k with the given parameter values"""
    L = []
    if replay is None:
        L.append("#[kani::proof]")
        for a in o.get("rust_attrs", []):
            L.append(a)
        L.append("#[kani::unwind(26)]\nfn %s() {" % hid)
        if o.get("rust_attrs"):
            L.append("    uf_reset();")
    else:
        L.append("#[test]\nfn kani_concrete_playback_%s_%d() {" % (hid, replay["k"]))
        if o.get("rust_attrs"):
            L.append("    uf_reset();")
    for n, k in o["params"]:
        lo, hi = prange(k)
        if replay is None:
            L.append("    let %s: u32 = kani::any();" % n)
            if (lo, hi) != (0, 0xFFFFFFFF):
                L.append("    kani::assume(%s%s <= %du32);" % (("%s >= %du32 && " % (n, lo)) if lo else "", n, hi))
        else:
            L.append("    let %s: u32 = %du32;" % (n, replay["values"].get(n, lo)))
    if o.get("payload"):
        if replay is None:
            L.append("    let pl: [u8; 255] = kani::any();")
        else:
            L.append("    let mut pl = [0u8; 255];\n    let mut i = 0;\n    while i < 255 { pl[i] = (i as u8).wrapping_mul(37) ^ %du8; i += 1; }" % replay["fill"])
    return L


def assume_line(cond, replay):
    return "    kani::assume(%s);" % cond if replay is None else "    if !(%s) { return; }" % cond


# ---- Rust (Kani) side -------------------------------------------------------------------------
def gen_rust_op(chip, o, replay=None):
    side = Side(o, "rust")
    e = Emit("rs", side)
    L = []
    hid = "c13_%s_%s" % (chip, o["id"])
    if replay is None:
        L.append("//@h id=%s props=C13 tier=%s build=phy cost=%d timeout=900" % (hid, o.get("tier", "quick"), o.get("cost", 30)))
        dom = ", ".join("%s in %d..=%d" % (n, *prange(k)) for n, k in o["params"]) or "no parameters"
        L.append("//@bounds %s: %s%s; the chip's answers to reads are arbitrary bytes" % (o["id"], dom, ("; assuming " + " and ".join(o["assume"])) if o["assume"] else ""))
        L.append("//@encodes %s" % o.get("encodes", o["rust"].split("(")[0]))
        if o["note"]:
            L.append("//@assumes %s" % o["note"])
    L += head(hid, o, replay)
    for n, x in o["lets"]:
        L.append("    let %s: u32 = %s;" % (n, e.go(x)))
    for a in o["assume"]:
        L.append(assume_line(e.cond(ast.parse(a, mode="eval").body), replay))
    radio = o["radio"] or DEFAULT_RADIO[chip]
    pre_lines = o["rust_pre"].strip().splitlines() if o["rust_pre"] else []
    if replay is not None:
        radio = concretise(radio, replay["fill"])
        pre_lines = [concretise(x, replay["fill"]).replace("kani::assume(", "assert!(") for x in pre_lines]
    L.append("    let mut r = %s;" % radio)
    L += ["    " + x for x in pre_lines]
    L.append("    let res = block_on(%s);" % o["rust"])
    L.append("    kani::assert(res.is_ok(), \"C13: %s: driver call failed on a fault-free bus\");" % o["id"])
    L.append("    kani::assert(spi().n == %d, \"C13: %s: number of SPI transactions differs from the reference driver\");" % (side.n, o["id"]))
    for i, t in enumerate(o["tx"]):
        if t.get("side", "both") not in ("both", "rust"):
            continue
        row = side.row(i)
        L.append("    let t = tx(%d);" % row)
        nm = len(t["mosi"])
        if t.get("payload"):
            L.append("    kani::assert(t.wlen + t.plen == %d + n as usize && t.rlen == 0, \"C13: %s: transaction %d length differs from the reference driver\");" % (nm, o["id"], i))
        else:
            L.append("    kani::assert(wire_len(&t) == %d, \"C13: %s: transaction %d length differs from the reference driver\");" % (nm + t["rd"], o["id"], i))
        for q, x in enumerate(t["mosi"]):
            if x == FREE or (isinstance(x, str) and x.startswith(FREE)):
                continue
            L.append("    kani::assert(mosi(&t, %d) == (%s) as u8, \"C13: %s: transaction %d byte %d differs from the reference driver\");" % (q, e.go(x), o["id"], i, q))
        for q in range(nm, nm + t["rd"]):
            L.append("    kani::assert(mosi(&t, %d) == 0, \"C13: %s: transaction %d byte %d (NOP/read) differs from the reference driver\");" % (q, o["id"], i, q))
        if t.get("payload"):
            # payload bytes: the head (first bytes) and one universally quantified position
            L.append("    kani::assert(t.wlen == %d, \"C13: %s: payload must follow a %d-byte header\");" % (nm, o["id"], nm))
            for k in range(8):
                L.append("    kani::assert(!(%d < n as usize) || t.p[%d] == pl[%d], \"C13: %s: payload byte %d differs\");" % (k, k, k, o["id"], k))
            L.append("    let j = spi().probe;")
            L.append("    kani::assert(!(j < n as usize) || t.probe == pl[j %% 255], \"C13: %s: payload byte at an arbitrary position differs\");" % o["id"])
    for w in o.get("rust_witness", []):
        L.append("    " + w)
    L.append("}\n")
    return "\n".join(L)


def reg_entries(o, side):
    """address -> (expr, mask) expected on `side` ('rust'|'c'); None = not compared on that side"""
    exp = {}
    for a, v in o["regs"].items():
        if isinstance(v, list):
            exp[a] = [(x[0], x[1], len(x) > 2 and x[2] == "late") for x in v]
        else:
            e, m = (v if isinstance(v, tuple) else (v, 0xFF))
            exp[a] = [(e, m, False)]
    for a in o.get("free_" + side, []):
        exp[a] = None
    return exp


def gen_rust_regop(chip, o, replay=None):
    """register-file operation (SX127x): final register file == specification, everything else unchanged"""
    e = Emit("rs", None)
    L = []
    hid = "c13_%s_%s" % (chip, o["id"])
    if replay is None:
        L.append("//@h id=%s props=C13 tier=%s build=phy cost=%d timeout=1800" % (hid, o.get("tier", "quick"), o.get("cost", 120)))
        dom = ", ".join("%s in %d..=%d" % (n, *prange(k)) for n, k in o["params"]) or "no parameters"
        L.append("//@bounds %s on the register-file chip model: %s%s; arbitrary prior contents of all 127 registers%s; every register is compared after the operation (the listed ones against the specification, all others must be unchanged)"
                 % (o["id"], dom, ("; assuming " + " and ".join(o["assume"])) if o["assume"] else "", ("; prior state: " + " and ".join(o["assume_init"])) if o.get("assume_init") else ""))
        L.append("//@encodes %s" % (o.get("encodes") or str(o["rust"]).split("(")[0]))
        if o["note"]:
            L.append("//@assumes %s" % o["note"])
    L += head(hid, o, replay)
    radio = o["radio"] or DEFAULT_RADIO[chip]
    pre_lines = o["rust_pre"].strip().splitlines() if o["rust_pre"] else []
    if replay is not None:
        radio = concretise(radio, replay["fill"])
        pre_lines = [concretise(x, replay["fill"]) for x in pre_lines]
    L.append("    let mut r = %s;" % radio)
    if replay is not None:
        # make the prior-state assumptions true on the concrete chip where they have the form (r(a) & m) == v
        for a in o.get("assume_init", []):
            m = re.fullmatch(r"\(r\((\w+)\) & (\w+)\) == (\w+)", a.strip())
            if m:
                L.append("    RegSpi::poke(%s, %s, %s);" % (int(m.group(1), 0), int(m.group(2), 0), int(m.group(3), 0)))
    for n, x in o["lets"]:
        L.append("    let %s: u32 = %s;" % (n, e.go(x)))
    for a in o["assume"] + o.get("assume_init", []):
        L.append(assume_line(e.cond(ast.parse(a, mode="eval").body), replay))
    L += ["    " + x for x in pre_lines]
    for k, call in enumerate(o["rust"] if isinstance(o["rust"], list) else [o["rust"]]):
        L.append("    kani::assert(block_on(%s).is_ok(), \"C13: %s: driver call failed on a fault-free bus\");" % (call, o["id"]))
    L.append("    kani::assert(!rf().bad, \"C13: %s: malformed register access\");" % o["id"])
    exp = reg_entries(o, "rust")
    LATE = []   # assertions emitted last (Kani assumes an assertion after checking it: a known deviation must not narrow the states the other registers are compared in)
    for a in range(1, 128):
        if a == 0x12:
            continue   # RegIrqFlags is write-1-to-clear: not part of the register file
        if a in exp:
            if exp[a] is None:
                continue
            for x, m, late in exp[a]:
                if m == 0xFF:
                    line = "    kani::assert(rf().get(0x%02X) == (%s) as u8, \"C13: %s: register 0x%02X differs from the reference driver's value\");" % (a, e.go(x), o["id"], a)
                else:
                    line = "    kani::assert(rf().get(0x%02X) & 0x%02X == ((%s) as u8) & 0x%02X, \"C13: %s: register 0x%02X (bits 0x%02X) differs from the reference driver's value\");" % (a, m, e.go(x), m, o["id"], a, m)
                (LATE if late else L).append(line)
        else:
            L.append("    kani::assert(rf().get(0x%02X) == rf().init(0x%02X), \"C13: %s: register 0x%02X is modified, the reference driver leaves it alone\");" % (a, a, o["id"], a))
    if o.get("payload"):
        L.append("    kani::assert(rf().fifo_n == n as usize, \"C13: %s: number of bytes written to the FIFO\");" % o["id"])
        for k in range(8):
            L.append("    kani::assert(!(%d < n as usize) || rf().fifo_head[%d] == pl[%d], \"C13: %s: FIFO byte %d\");" % (k, k, k, o["id"], k))
        L.append("    kani::assert(!(rf().probe < n as usize) || rf().fifo_probe == pl[rf().probe %% 255], \"C13: %s: FIFO byte at an arbitrary position\");" % o["id"])
    else:
        L.append("    kani::assert(rf().fifo_n == 0, \"C13: %s: nothing is written to the FIFO\");" % o["id"])
    for w in o.get("rust_witness", []):
        L.append("    " + w)
    L += LATE
    L.append("}\n")
    return "\n".join(L)


def gen_c_regop(chip, o):
    e = Emit("c", None)
    L = ["void h_%s(void) {" % o["id"]]
    for n, k in o["params"]:
        lo, hi = prange(k)
        L.append("    uint32_t %s = nondet_u32(); __CPROVER_assume(%s >= %du && %s <= %du);" % (n, n, lo, n, hi))
    if o.get("payload"):
        L.append("    uint8_t pl[255];   /* uninitialised = arbitrary bytes for CBMC */")
    L.append("    regfile_reset();")
    for n, x in o["lets"]:
        L.append("    uint32_t %s = %s;" % (n, e.go(x)))
    for a in o["assume"] + o.get("assume_init", []):
        L.append("    __CPROVER_assume(%s);" % e.cond(ast.parse(a, mode="eval").body))
    L.append("    radio_prepare();")
    L += ["    " + x for x in o["c"].strip().splitlines()]
    L.append("    __CPROVER_assert(!BAD, \"%s: malformed register access\");" % o["id"])
    exp = reg_entries(o, "c")
    for a in range(1, 128):
        if a == 0x12:
            continue
        if a in exp:
            if exp[a] is None:
                continue
            for x, m, _late in exp[a]:
                L.append("    __CPROVER_assert((REG[%d] & 0x%02X) == ((uint8_t)(%s) & 0x%02X), \"%s: register 0x%02X\");" % (a, m, e.go(x), m, o["id"], a))
        else:
            L.append("    __CPROVER_assert(REG[%d] == INIT[%d], \"%s: register 0x%02X unchanged\");" % (a, a, o["id"], a))
    if o.get("payload"):
        L.append("    __CPROVER_assert(FIFO_N == n, \"%s: FIFO length\");" % o["id"])
        L.append("    { uint32_t j = nondet_u32(); __CPROVER_assume(j < n && j < 255); __CPROVER_assert(FIFO[j] == pl[j], \"%s: FIFO byte\"); }" % o["id"])
    else:
        L.append("    __CPROVER_assert(FIFO_N == 0, \"%s: nothing written to the FIFO\");" % o["id"])
    L.append("    __CPROVER_assert(0, \"witness: end of %s reached\");" % o["id"])
    L.append("}\n")
    return "\n".join(L)


# ---- C (CBMC) side ------------------------------------------------------------------------------
C_PRELUDE = r"""// generated by lib/c13gen.py -- CBMC harness over Semtech's reference driver (SWL2001)
#include <stdint.h>
#include <stdbool.h>
#include <stddef.h>
#define MAXT 8
#define MAXW 12
#define MAXR 8
static uint8_t W[MAXT][MAXW];
static unsigned CL[MAXT], DL[MAXT], RL[MAXT], N;
static uint8_t RDV[MAXT][MAXR];
static const uint8_t* DP[MAXT];
uint8_t nondet_u8(void);
uint32_t nondet_u32(void);
static void rec_write(const uint8_t* cmd, unsigned cl, const uint8_t* d, unsigned dl) {
    __CPROVER_assert(N < MAXT, "log full");
    for (unsigned i = 0; i < MAXW; i++) { if (i < cl) W[N][i] = cmd[i]; else if (i < cl + dl) W[N][i] = d[i - cl]; else W[N][i] = 0; }
    CL[N] = cl; DL[N] = dl; RL[N] = 0; DP[N] = d; N++;
}
static void rec_read(const uint8_t* cmd, unsigned cl, uint8_t* d, unsigned dl) {
    __CPROVER_assert(N < MAXT, "log full");
    __CPROVER_assert(dl <= MAXR, "read longer than the model answers");
    for (unsigned i = 0; i < MAXW; i++) { if (i < cl) W[N][i] = cmd[i]; else W[N][i] = 0; }
    for (unsigned i = 0; i < MAXR; i++) { if (i < dl) { RDV[N][i] = nondet_u8(); d[i] = RDV[N][i]; } }
    CL[N] = cl; DL[N] = 0; RL[N] = dl; DP[N] = 0; N++;
}
#define TOTAL(i) (CL[i] + DL[i] + RL[i])
#define MOSI(i, q) ((q) < MAXW ? W[i][q] : 0)
"""

C_HAL = {
    "sx126x": r"""
#include "sx126x.c"
#define CTX ((const void*)0)
sx126x_hal_status_t sx126x_hal_write(const void* c, const uint8_t* cmd, const uint16_t cl, const uint8_t* d, const uint16_t dl) { rec_write(cmd, cl, d, dl); return SX126X_HAL_STATUS_OK; }
sx126x_hal_status_t sx126x_hal_read(const void* c, const uint8_t* cmd, const uint16_t cl, uint8_t* d, const uint16_t dl) { rec_read(cmd, cl, d, dl); return SX126X_HAL_STATUS_OK; }
sx126x_hal_status_t sx126x_hal_reset(const void* c) { return SX126X_HAL_STATUS_OK; }
sx126x_hal_status_t sx126x_hal_wakeup(const void* c) { return SX126X_HAL_STATUS_OK; }
static const sx126x_lora_sf_t SFS[8] = { SX126X_LORA_SF5, SX126X_LORA_SF6, SX126X_LORA_SF7, SX126X_LORA_SF8, SX126X_LORA_SF9, SX126X_LORA_SF10, SX126X_LORA_SF11, SX126X_LORA_SF12 };
static const sx126x_lora_bw_t BWS[10] = { SX126X_LORA_BW_007, SX126X_LORA_BW_010, SX126X_LORA_BW_015, SX126X_LORA_BW_020, SX126X_LORA_BW_031, SX126X_LORA_BW_041, SX126X_LORA_BW_062, SX126X_LORA_BW_125, SX126X_LORA_BW_250, SX126X_LORA_BW_500 };
static const sx126x_lora_cr_t CRS[4] = { SX126X_LORA_CR_4_5, SX126X_LORA_CR_4_6, SX126X_LORA_CR_4_7, SX126X_LORA_CR_4_8 };
""",
}


C_PRELUDE_REGS = r"""// generated by lib/c13gen.py -- CBMC harness over Semtech's reference driver (SWL2001), register-file chip model
#include <stdint.h>
#include <stdbool.h>
#include <stddef.h>
static uint8_t REG[128], INIT[128], FIFO[256];
static unsigned FIFO_N;
static int BAD;
uint8_t nondet_u8(void);
uint32_t nondet_u32(void);
#include "sx127x.c"
static sx127x_t RADIO;
sx127x_radio_id_t sx127x_hal_get_radio_id(const sx127x_t* radio) { return radio->radio_id; }
void sx127x_hal_dio_irq_attach(const sx127x_t* radio) {}
void sx127x_hal_reset(const sx127x_t* radio) {}
uint32_t sx127x_hal_get_dio_1_pin_state(const sx127x_t* radio) { return nondet_u32(); }
sx127x_hal_status_t sx127x_hal_timer_start(const sx127x_t* radio, const uint32_t t, void (*cb)(void*)) { return SX127X_HAL_STATUS_OK; }
sx127x_hal_status_t sx127x_hal_timer_stop(const sx127x_t* radio) { return SX127X_HAL_STATUS_OK; }
bool sx127x_hal_timer_is_started(const sx127x_t* radio) { return false; }
sx127x_hal_status_t sx127x_hal_write(const sx127x_t* radio, const uint16_t address, const uint8_t* data, const uint16_t n) {
    for (unsigned i = 0; i < n; i++) {
        if (address == 0) { if (FIFO_N < 256) FIFO[FIFO_N] = data[i]; FIFO_N++; }
        else { unsigned a = address + i; uint8_t b = data[i];
               if (a == 0x12) {}
               else if (a == 1) { /* LongRangeMode only writable in sleep with a write that stays in sleep */
                   uint8_t cur = REG[1]; REG[1] = ((cur & 7) == 0 && (b & 7) == 0) ? b : (uint8_t)((cur & 0x80) | (b & 0x7F)); }
               else if (a < 128) REG[a] = b; else BAD = 1; }
    }
    return SX127X_HAL_STATUS_OK;
}
sx127x_hal_status_t sx127x_hal_read(const sx127x_t* radio, const uint16_t address, uint8_t* data, const uint16_t n) {
    for (unsigned i = 0; i < n; i++) data[i] = (address == 0) ? nondet_u8() : REG[(address + i) & 127];
    return SX127X_HAL_STATUS_OK;
}
static void regfile_reset(void) {
    __CPROVER_havoc_object(INIT);
    __CPROVER_array_copy(REG, INIT);
    FIFO_N = 0; BAD = 0;
}
"""

C_RADIO_PREPARE = {
    "sx1276": """static void radio_prepare(void) {
    RADIO.radio_id = RADIO_ID;
    /* both drivers select the LoRa packet engine at start-up; the register file already says so
       (prior-state assumption), hence this only arms the driver's shadow state */
    sx127x_set_pkt_type(&RADIO, SX127X_PKT_TYPE_LORA);
    __CPROVER_assert(RADIO.pkt_type == SX127X_PKT_TYPE_LORA, "shadow packet type is LoRa");
}
static const sx127x_lora_sf_t SFS[7] = { SX127X_LORA_SF6, SX127X_LORA_SF7, SX127X_LORA_SF8, SX127X_LORA_SF9, SX127X_LORA_SF10, SX127X_LORA_SF11, SX127X_LORA_SF12 };
static const sx127x_lora_bw_t BWS[10] = { SX127X_LORA_BW_007, SX127X_LORA_BW_010, SX127X_LORA_BW_015, SX127X_LORA_BW_020, SX127X_LORA_BW_031, SX127X_LORA_BW_041, SX127X_LORA_BW_062, SX127X_LORA_BW_125, SX127X_LORA_BW_250, SX127X_LORA_BW_500 };
static const sx127x_lora_cr_t CRS[4] = { SX127X_LORA_CR_4_5, SX127X_LORA_CR_4_6, SX127X_LORA_CR_4_7, SX127X_LORA_CR_4_8 };
""",
}


def gen_c_op(chip, o):
    side = Side(o, "c")
    e = Emit("c", side)
    L = ["void h_%s(void) {" % o["id"]]
    for n, k in o["params"]:
        lo, hi = prange(k)
        L.append("    uint32_t %s = nondet_u32(); __CPROVER_assume(%s >= %du && %s <= %du);" % (n, n, lo, n, hi))
    if o.get("payload"):
        L.append("    uint8_t pl[255];   /* uninitialised = arbitrary bytes for CBMC */")
    for x in o.get("free", []):
        L.append("    uint32_t %s = nondet_u8();" % x)
    # lets that do not look at the chip's answers come first, assumptions on them next
    late = [(n, x) for n, x in o["lets"] if "m(" in str(x)]
    for n, x in o["lets"]:
        if (n, x) not in late:
            L.append("    uint32_t %s = %s;" % (n, e.go(x)))
    for a in o["assume"]:
        L.append("    __CPROVER_assume(%s);" % e.cond(ast.parse(a, mode="eval").body))
    L.append("    N = 0;")
    L += ["    " + s for s in o["c"].strip().splitlines()]
    for n, x in late:
        L.append("    uint32_t %s = %s;" % (n, e.go(x)))
    for a in o.get("c_assume_after", []):
        L.append("    __CPROVER_assume(%s);" % e.cond(ast.parse(a, mode="eval").body))
    L.append("    __CPROVER_assert(N == %d, \"%s: number of transactions\");" % (side.n, o["id"]))
    for i, t in enumerate(o["tx"]):
        if t.get("side", "both") not in ("both", "c"):
            continue
        row = side.row(i)
        nm = len(t["mosi"])
        if t.get("payload"):
            L.append("    __CPROVER_assert(TOTAL(%d) == %d + n && CL[%d] == %d, \"%s: transaction %d length\");" % (row, nm, row, nm, o["id"], i))
            L.append("    { uint32_t j = nondet_u32(); __CPROVER_assume(j < n); __CPROVER_assert(DP[%d][j] == pl[j], \"%s: payload byte\"); }" % (row, o["id"]))
        else:
            L.append("    __CPROVER_assert(TOTAL(%d) == %d, \"%s: transaction %d length\");" % (row, nm + t["rd"], o["id"], i))
        for q, x in enumerate(t["mosi"]):
            if isinstance(x, str) and x.startswith(FREE):
                x = x[len(FREE) + 1:]
            L.append("    __CPROVER_assert(MOSI(%d, %d) == (uint8_t)(%s), \"%s: transaction %d byte %d\");" % (row, q, e.go(x), o["id"], i, q))
        for q in range(nm, nm + t["rd"]):
            L.append("    __CPROVER_assert(MOSI(%d, %d) == 0, \"%s: transaction %d byte %d (NOP/read)\");" % (row, q, o["id"], i, q))
    L.append("    __CPROVER_assert(0, \"witness: end of %s reached\");" % o["id"])
    L.append("}\n")
    return "\n".join(L)


def free(name):
    """a byte the reference driver leaves to its caller (board support package): compared on the C
    side against the argument passed in, not compared on the Rust side"""
    return FREE + ":" + name


# ---- SX126x specification ------------------------------------------------------------------------
DEFAULT_RADIO = {"sx126x": "radio_1262()", "sx1272": "Sx127x::new(RegSpi::new(), MockIv::new(), Config { chip: Sx1272, tcxo_used: false, tx_boost: kani::any(), rx_boost: kani::any() })", "sx1276": "Sx127x::new(RegSpi::new(), MockIv::new(), Config { chip: Sx1276, tcxo_used: false, tx_boost: kani::any(), rx_boost: kani::any() })"}
MP126 = "let mp = ModulationParams { spreading_factor: sf_of(sf), bandwidth: bw_of(bw), coding_rate: cr_of(cr), low_data_rate_optimize: ldro as u8, frequency_in_hz: 868_100_000 };"
RADIO_BOOST = "Sx126x::new(MockSpi::new(), MockIv::new(), Config { chip: Sx1262, tcxo_ctrl: None, use_dcdc: kani::any(), rx_boost: boost != 0 })"
SYMB_LETS = [("ns", "248 if n > 248 else n"), ("m0", "(ns + 1) >> 1"), ("exp", "1 if m0 > 31 else 0"), ("mant", "((m0 + 3) >> 2) if m0 > 31 else m0")]
RX_C = """sx126x_stop_timer_on_preamble(CTX, true);
sx126x_set_lora_symb_nb_timeout(CTX, (uint8_t)(%s));
sx126x_cfg_rx_boosted(CTX, boost != 0);
sx126x_set_rx_with_timeout_in_rtc_step(CTX, %s);"""
# datasheet DS_SX1261-2 table 9-2: image calibration bytes per band [MHz]
CAL_BANDS = [(430, 440, 0x6B, 0x6F), (470, 510, 0x75, 0x81), (779, 787, 0xC1, 0xC5), (863, 870, 0xD7, 0xDB), (902, 928, 0xE1, 0xE9)]


def ops_sx126x():
    O = []
    O.append(op("sleep", params=[("warm", "bool")], rust="r.set_sleep(warm != 0, &mut MockDelay)", encodes="Sx126x::set_sleep, SleepParams::value",
                c="sx126x_set_sleep(CTX, warm ? SX126X_SLEEP_CFG_WARM_START : SX126X_SLEEP_CFG_COLD_START);",
                tx=[T(0x84, "warm * 4")]))
    O.append(op("standby", rust="r.set_standby()", c="sx126x_set_standby(CTX, SX126X_STANDBY_CFG_RC);", tx=[T(0x80, 0)]))
    O.append(op("wakeup", rust="r.ensure_ready(RadioMode::Sleep)", c="sx126x_chip_status_t st; sx126x_get_status(CTX, &st);", tx=[R(0xC0, rd=1)]))
    O.append(op("rf_freq", params=[("f", "u32")], rust="r.set_channel(f)", c="sx126x_set_rf_freq(CTX, f);", cost=60, smt=True,
                encodes="Sx126x::set_channel (framing of the PLL word; the word itself: E2 job c13_pll_equiv)", lets=[("w", "pll126(f)")],
                rust_attrs=["#[kani::stub(Sx126x::convert_freq_in_hz_to_pll_step, uf_pll126)]"],
                rust_witness=["kani::cover!(w == 0x1234_5678, \"PLL conversion replaced by the uninterpreted function\");"],
                note="Sx126x::convert_freq_in_hz_to_pll_step is replaced by an uninterpreted function (same input, same output) in this harness: two copies of a 32-bit divider are not decided by the SAT back end; its equality with the reference kernel for every frequency is the E2 job c13_pll_equiv",
                tx=[T(0x86, "w >> 24", "w >> 16", "w >> 8", "w")]))
    O.append(op("mod_params", params=[("sf", "idx(8)"), ("bw", "idx(10)"), ("cr", "idx(4)"), ("ldro", "bool")],
                rust_pre=MP126, rust="r.set_modulation_params(&mp)", cost=60,
                encodes="Sx126x::set_modulation_params, spreading_factor_value, bandwidth_value, coding_rate_value, errata 15.1 read-modify-write",
                c="sx126x_mod_params_lora_t p = { .sf = SFS[sf], .bw = BWS[bw], .cr = CRS[cr], .ldro = (uint8_t)ldro };\nsx126x_set_lora_mod_params(CTX, &p);",
                tx=[T(0x8B, "sf + 5", "tbl(bw, [0, 8, 1, 9, 2, 10, 3, 4, 5, 6])", "cr + 1", "ldro"),
                    R(0x1D, 0x08, 0x89, rd=2),
                    T(0x0D, 0x08, 0x89, "(m(1, 4) & 0xFB) if bw == 9 else (m(1, 4) | 4)")]))
    O.append(op("pkt_params", params=[("pre", "u16"), ("imp", "bool"), ("plen", "u8"), ("crc", "bool"), ("iq", "bool")],
                rust_pre="let pp = PacketParams { preamble_length: pre as u16, implicit_header: imp != 0, payload_length: plen as u8, crc_on: crc != 0, iq_inverted: iq != 0 };",
                rust="r.set_packet_params(&pp)", encodes="Sx126x::set_packet_params, errata 15.4 read-modify-write",
                c="sx126x_pkt_params_lora_t p = { .preamble_len_in_symb = (uint16_t)pre, .header_type = imp ? SX126X_LORA_PKT_IMPLICIT : SX126X_LORA_PKT_EXPLICIT, .pld_len_in_bytes = (uint8_t)plen, .crc_is_on = crc != 0, .invert_iq_is_on = iq != 0 };\nsx126x_set_lora_pkt_params(CTX, &p);",
                tx=[T(0x8C, "pre >> 8", "pre", "imp", "plen", "crc", "iq"),
                    R(0x1D, 0x07, 0x36, rd=2),
                    T(0x0D, 0x07, 0x36, "(m(1, 4) & 0xFB) if iq else (m(1, 4) | 4)")]))
    O.append(op("sync_word", params=[("s", "u8")],
                rust="r.set_lora_sync_word(crate::mod_params::sync_word_from_legacy(s as u8))",
                encodes="Sx126x::set_lora_sync_word, mod_params::sync_word_from_legacy",
                note="documented deviation: the reference reads register 0x0740/0x0741 and keeps the low nibbles, the Rust driver writes both bytes without reading; compared for the reset content of the low nibbles (0x4, 0x4)",
                c="sx126x_set_lora_sync_word(CTX, (uint8_t)s);",
                c_assume_after=["(m(0, 4) & 15) == 4", "(m(0, 5) & 15) == 4"],
                tx=[R(0x1D, 0x07, 0x40, rd=3, side="c"),
                    T(0x0D, 0x07, 0x40, "(s & 0xF0) | 4", "((s & 0x0F) << 4) | 4")]))
    O.append(op("buffer_base", params=[("txb", "u8"), ("rxb", "u8")], rust="r.set_tx_rx_buffer_base_address(txb as usize, rxb as usize)",
                c="sx126x_set_buffer_base_address(CTX, (uint8_t)txb, (uint8_t)rxb);", tx=[T(0x8F, "txb", "rxb")]))
    O.append(op("write_buffer", params=[("n", "range(0,255)")], payload=True, rust="r.set_payload(&pl[..n as usize])", cost=60,
                c="sx126x_write_buffer(CTX, 0, pl, (uint8_t)n);", tx=[T(0x0E, 0, payload=True)]))
    for var, radio, hp in (("sx1262", "radio_1262()", True), ("sx1261", "radio_1261()", False), ("stm32wl_hp", "radio_wl(true)", True), ("stm32wl_lp", "radio_wl(false)", False)):
        clamp = [R(0x1D, 0x08, 0xD8, rd=2), T(0x0D, 0x08, 0xD8, "m(0, 4) | 0x1E")] if hp else []
        O.append(op("tx_power_" + var, params=[("req", "u32"), ("prep", "bool")], radio=radio, free=["duty", "hpmax", "pwr"], tier="quick" if var in ("sx1262", "sx1261") else "thorough",
                    rust="r.set_tx_power_and_ramp_time(req as i32, None, prep != 0)", cost=60,
                    encodes="Sx126x::set_tx_power_and_ramp_time, set_pa_config (framing; the table values are C17)",
                    note="the reference leaves paDutyCycle/hpMax/power to the board support package: those three bytes are free on the Rust side (their values are the subject of C17), deviceSel/paLut/ramp/TX clamp are compared",
                    c=("sx126x_cfg_tx_clamp(CTX);\n" if hp else "") +
                      "sx126x_pa_cfg_params_t p = { .pa_duty_cycle = (uint8_t)duty, .hp_max = (uint8_t)hpmax, .device_sel = %d, .pa_lut = 1 };\nsx126x_set_pa_cfg(CTX, &p);\nsx126x_set_tx_params(CTX, (int8_t)pwr, prep ? SX126X_RAMP_40_US : SX126X_RAMP_200_US);" % (0 if hp else 1),
                    tx=clamp + [T(0x95, free("duty"), free("hpmax"), 0 if hp else 1, 1), T(0x8E, free("pwr"), "2 if prep else 4")]))
    O.append(op("irq_params", params=[("mode", "idx(5)")],
                rust_pre="let md = match mode { 0 => Some(RadioMode::Standby), 1 => Some(RadioMode::Transmit), 2 => Some(RadioMode::Receive(RxMode::Continuous)), 3 => Some(RadioMode::ChannelActivityDetection), _ => None };",
                rust="r.set_irq_params(md)", lets=[("mask", "tbl(mode, [0xFFFF, 0x0201, 0xFFFF, 0x0180, 0])")],
                note="mask per mode is the Rust driver's policy (all / TxDone|Timeout / all / CadDone|CadDetected / none); the reference takes the masks as arguments",
                c="static const uint16_t MASKS[5] = { 0xFFFF, SX126X_IRQ_TX_DONE | SX126X_IRQ_TIMEOUT, 0xFFFF, SX126X_IRQ_CAD_DONE | SX126X_IRQ_CAD_DETECTED, SX126X_IRQ_NONE };\nsx126x_set_dio_irq_params(CTX, MASKS[mode], MASKS[mode], 0, 0);",
                tx=[T(0x08, "mask >> 8", "mask", "mask >> 8", "mask", 0, 0, 0, 0)]))
    O.append(op("clear_irq", rust="r.clear_irq_status()", c="sx126x_clear_irq_status(CTX, 0xFFFF);", tx=[T(0x02, 0xFF, 0xFF)]))
    O.append(op("rx_continuous", params=[("boost", "bool")], radio=RADIO_BOOST, rust="r.do_rx(RxMode::Continuous)", tier="thorough",
                encodes="Sx126x::do_rx, set_lora_symbol_num_timeout", c=RX_C % ("0", "0xFFFFFF"),
                tx=[T(0x9F, 1), T(0xA0, 0), T(0x0D, 0x08, 0xAC, "0x96 if boost else 0x94"), T(0x82, 0xFF, 0xFF, 0xFF)]))
    O.append(op("rx_single", params=[("n", "range(1,65535)"), ("boost", "bool")], radio=RADIO_BOOST, rust="r.do_rx(RxMode::Single(n as u16))", lets=SYMB_LETS, cost=60,
                encodes="Sx126x::do_rx, set_lora_symbol_num_timeout (mantissa/exponent encoding and SynchTimeout register)",
                note="the reference takes the symbol count as uint8_t: counts above 255 are passed saturated (both drivers clamp to 248)",
                c=RX_C % ("n > 255 ? 255 : n", "0"),
                tx=[T(0x9F, 1), T(0xA0, "mant << (2 * exp + 1)"), T(0x0D, 0x07, 0x06, "exp + (mant << 3)"),
                    T(0x0D, 0x08, 0xAC, "0x96 if boost else 0x94"), T(0x82, 0, 0, 0)]))
    O.append(op("rx_single_zero", params=[("boost", "bool")], radio=RADIO_BOOST, rust="r.do_rx(RxMode::Single(0))", c=RX_C % ("0", "0"), tier="thorough",
                tx=[T(0x9F, 1), T(0xA0, 0), T(0x0D, 0x08, 0xAC, "0x96 if boost else 0x94"), T(0x82, 0, 0, 0)]))
    O.append(op("tx_start", rust="r.do_tx()", c="sx126x_set_tx(CTX, 0);", tx=[T(0x83, 0, 0, 0)]))
    O.append(op("tx_cw", rust="r.set_tx_continuous_wave_mode()", c="sx126x_set_tx_cw(CTX);", tx=[T(0xD1)]))
    O.append(op("cad", params=[("sf", "idx(8)"), ("boost", "bool")], radio=RADIO_BOOST,
                rust_pre="let mp = ModulationParams { spreading_factor: sf_of(sf), bandwidth: Bandwidth::_125KHz, coding_rate: CodingRate::_4_5, low_data_rate_optimize: 0, frequency_in_hz: 868_100_000 };",
                rust="r.do_cad(&mp)",
                note="CAD parameters (8 symbols, peak SF+13, min 10, CAD only, no timeout) are the Rust driver's choice from Semtech's application note; the reference takes them as arguments",
                c="sx126x_cfg_rx_boosted(CTX, boost != 0);\nsx126x_cad_params_t p = { .cad_symb_nb = SX126X_CAD_08_SYMB, .cad_detect_peak = (uint8_t)(sf + 5 + 13), .cad_detect_min = 10, .cad_exit_mode = SX126X_CAD_ONLY, .cad_timeout = 0 };\nsx126x_set_cad_params(CTX, &p);\nsx126x_set_cad(CTX);",
                tx=[T(0x0D, 0x08, 0xAC, "0x96 if boost else 0x94"), T(0x88, 3, "sf + 18", 10, 0, 0, 0, 0), T(0xC5)]))
    O.append(op("cal_img", params=[("band", "idx(5)"), ("f", "u32")],
                assume=["f >= tbl(band, [%s]) and f <= tbl(band, [%s])" % (", ".join(str(b[0] * 1000000) for b in CAL_BANDS), ", ".join(str(b[1] * 1000000) for b in CAL_BANDS))],
                rust="r.calibrate_image(f)",
                note="documented deviation: the calibration bytes follow datasheet table 9-2 per band; the reference is driven through sx126x_cal_img with the table bytes (its MHz helper rounds differently); frequencies outside the five datasheet bands are outside the claim",
                c="static const uint8_t F1[5] = { %s }, F2[5] = { %s };\nsx126x_cal_img(CTX, F1[band], F2[band]);" % (", ".join(hex(b[2]) for b in CAL_BANDS), ", ".join(hex(b[3]) for b in CAL_BANDS)),
                tx=[T(0x98, "tbl(band, [%s])" % ", ".join(str(b[2]) for b in CAL_BANDS), "tbl(band, [%s])" % ", ".join(str(b[3]) for b in CAL_BANDS))]))
    O.append(op("pkt_status", rust="r.get_rx_packet_status()", c="sx126x_pkt_status_lora_t st; sx126x_get_lora_pkt_status(CTX, &st);", tx=[R(0x14, rd=4)],
                assume=[], note="status byte answered by the chip assumed free of command errors on the Rust side", rust_pre="kani::assume(!OpStatusErrorMask::is_error(script_at(0, 0)));"))
    O.append(op("rssi_inst", rust="r.get_rssi()", c="int16_t v; sx126x_get_rssi_inst(CTX, &v);", tx=[R(0x15, rd=2)],
                rust_pre="kani::assume(!OpStatusErrorMask::is_error(script_at(0, 0)));"))
    return O


# ---- SX1276 specification (register-file outcome) ---------------------------------------------------
# every operation assumes the chip is in LoRa mode (both drivers' start-up) with the high-frequency
# register page: RegOpMode bits 7..3 = 1000_0
LORA_MODE = "(r(1) & 0xF8) == 0x80"
RADIO_1276 = "Sx127x::new(RegSpi::new(), MockIv::new(), Config { chip: Sx1276, tcxo_used: false, tx_boost: %s, rx_boost: kani::any() })"
MP1276 = "let mp = ModulationParams { spreading_factor: sf_of(sf + 1), bandwidth: bw_of(bw), coding_rate: cr_of(cr), low_data_rate_optimize: ldro as u8, frequency_in_hz: kani::any() };"


def regop(id, **kw):
    d = op(id, kind="regs", regs={}, assume_init=[LORA_MODE], free_rust=[], free_c=[])
    d.update(kw)
    if LORA_MODE not in d["assume_init"]:
        d["assume_init"] = [LORA_MODE] + d["assume_init"]
    return d


def mod_params_1276(id, bwfix, tier="quick"):
    params = [("sf", "idx(7)"), ("cr", "idx(4)"), ("ldro", "bool")]
    lets = []
    if bwfix is None:
        params.insert(1, ("bw", "idx(10)"))
    else:
        lets = [("bw", str(bwfix))]
    return regop(id, params=params, lets=lets, tier=tier, cost=600 if bwfix is None else 300, radio=RADIO_1276 % "kani::any()",
                 rust_pre=MP1276, rust="r.set_modulation_params(&mp)",
                 encodes="Sx127x::set_modulation_params, Sx1276::set_modulation_params, Sx1276::bandwidth_value, spreading_factor_value, coding_rate_denominator_value",
                 note="errata 2.3 (RegIfFreq1/2, AutomaticIFOn) and 2.1 (RegHighBwOptimize1/2) are applied by the Rust driver with the modulation parameters and by the reference on SetRx: registers 0x2F, 0x30, 0x36, 0x3A and bit 7 of 0x31 are the documented errata sequence and not compared",
                 c="sx127x_lora_mod_params_t p = { .sf = SFS[sf], .bw = BWS[bw], .cr = CRS[cr], .ldro = (uint8_t)ldro };\nsx127x_set_lora_mod_params(&RADIO, &p);",
                 regs={0x1D: "(r(0x1D) & 0x01) | (bw << 4) | ((cr + 1) << 1)",
                       0x1E: "(r(0x1E) & 0x0F) | ((sf + 6) << 4)",
                       # two entries: the AgcAutoOn bit is a recorded finding (F-C13-2) and is asserted last
                       0x26: [("(r(0x26) & 0xF7) | (ldro << 3)", 0xFB), ("r(0x26)", 0x04, "late")],
                       0x31: ("(r(0x31) & 0xF8) | (5 if sf == 0 else 3)", 0x7F),
                       0x37: "0x0C if sf == 0 else 0x0A"},
                 free_rust=[0x2F, 0x30, 0x36, 0x3A])


def ops_sx1276():
    O = []
    O.append(regop("rf_freq", params=[("f", "u32")], radio=RADIO_1276 % "kani::any()", rust="r.set_channel(f)", lets=[("w", "pll127(f)")],
                   rust_attrs=["#[kani::stub(crate::sx127x::freq_to_pll_step, uf_pll127)]"],
                   rust_witness=["kani::cover!(w == 0x0012_3456, \"PLL conversion replaced by the uninterpreted function\");"],
                   note="freq_to_pll_step is replaced by an uninterpreted function in this harness; its equality with the reference kernel for every frequency is the E2 job c13_pll_equiv",
                   encodes="Sx127x::set_channel (the three Frf registers; the word itself: c13_pll_equiv)", smt=True,
                   c="sx127x_set_rf_freq(&RADIO, f);", regs={6: "w >> 16", 7: "w >> 8", 8: "w"}))
    O.append(regop("standby", radio=RADIO_1276 % "kani::any()", rust="r.set_standby()", c="sx127x_set_standby(&RADIO);", regs={1: "0x81"}))
    O.append(regop("sleep", radio=RADIO_1276 % "kani::any()", rust="r.set_sleep(false, &mut MockDelay)", c="sx127x_set_sleep(&RADIO);", regs={1: "0x80"},
                   assume_init=["(r(1) & 7) != 0"],
                   note="prior mode other than sleep: the reference writes the mode bits only (0x00), which on a chip already asleep would also clear LongRangeMode; the Rust driver rewrites the full byte"))
    O.append(regop("sync_word", params=[("s", "u8")], radio=RADIO_1276 % "kani::any()",
                   rust="r.set_lora_sync_word(crate::mod_params::sync_word_from_legacy(s as u8))", encodes="Sx127x::set_lora_sync_word, sync_word_to_legacy",
                   c="sx127x_set_lora_sync_word(&RADIO, (uint8_t)s);", regs={0x39: "s"}))
    O.append(regop("symb_timeout", params=[("n", "range(1,1023)")], radio=RADIO_1276 % "kani::any()", rust="r.set_lora_symbol_num_timeout(n as u16)",
                   c="sx127x_set_lora_sync_timeout(&RADIO, (uint16_t)n);",
                   regs={0x1E: "(r(0x1E) & 0xFC) | (n >> 8)", 0x1F: "n & 0xFF"}))
    # TX power: q = requested dBm + 128 (0..=255 stands for -128..=127)
    O.append(regop("tx_power_boost", params=[("q", "u8"), ("prep", "bool")], radio=RADIO_1276 % "true",
                   lets=[("c", "130 if q < 130 else (148 if q > 148 else q)"), ("hi", "1 if c > 145 else 0"), ("opw", "(c - 128 - (5 if hi else 2)) & 0x0F")],
                   assume_init=["(r(0x0A) & 0xF0) == 0", "(r(0x4D) & 0xF8) == 0x80"],
                   rust="r.set_tx_power_and_ramp_time(q as i32 - 128, None, prep != 0)",
                   encodes="Sx127x::set_tx_power_and_ramp_time, Sx1276::set_tx_power (PA_BOOST), Sx1276::ramp_value",
                   note="the reference takes the clamped power and the +20 dBm switch from its caller (passed here as the Rust driver chooses them: clamp to 2..=20, PaDac above 17 dBm); MaxPower (RegPaConfig bits 6:4) is unused with PA_BOOST and not compared; the over-current trim (RegOcp) is set by the Rust driver only; reserved bits of RegPaRamp/RegPaDac assumed at their reset values (the reference keeps them, the Rust driver writes them)",
                   c="sx127x_pa_cfg_params_t pc = { .pa_select = SX127X_PA_SELECT_BOOST, .is_20_dbm_output_on = hi != 0 };\nsx127x_set_pa_cfg(&RADIO, &pc);\nsx127x_set_tx_params(&RADIO, (int8_t)((int)c - 128), prep ? SX127X_RAMP_40_US : SX127X_RAMP_250_US);",
                   regs={0x09: ("0x80 | opw", 0x8F), 0x0A: "9 if prep else 4", 0x4D: "0x87 if hi else 0x84"}, free_rust=[0x0B]))
    O.append(regop("tx_power_rfo", params=[("q", "u8"), ("prep", "bool")], radio=RADIO_1276 % "false", tier="thorough",
                   lets=[("c", "124 if q < 124 else (142 if q > 142 else q)"), ("pos", "1 if c > 128 else 0"), ("opw", "((c - 128) if pos else (c - 124)) & 0x0F")],
                   assume_init=["(r(0x0A) & 0xF0) == 0", "(r(0x4D) & 0xF8) == 0x80"],
                   rust="r.set_tx_power_and_ramp_time(q as i32 - 128, None, prep != 0)",
                   encodes="Sx127x::set_tx_power_and_ramp_time, Sx1276::set_tx_power (RFO)",
                   note="as tx_power_boost; clamp to -4..=14 dBm, MaxPower 7 above 0 dBm and 0 otherwise",
                   c="sx127x_pa_cfg_params_t pc = { .pa_select = SX127X_PA_SELECT_RFO, .is_20_dbm_output_on = false };\nsx127x_set_pa_cfg(&RADIO, &pc);\nsx127x_set_tx_params(&RADIO, (int8_t)((int)c - 128), prep ? SX127X_RAMP_40_US : SX127X_RAMP_250_US);",
                   regs={0x09: "((7 if pos else 0) << 4) | opw", 0x0A: "9 if prep else 4", 0x4D: "0x84"}, free_rust=[0x0B]))
    # one register access through the async driver stack costs ~200 k SAT variables: the 17-access
    # set_modulation_params takes 10-15 minutes per bandwidth class, beyond the quick tier's budget
    O.append(mod_params_1276("mod_params_bw125", 7, tier="thorough"))
    O.append(mod_params_1276("mod_params_bw500", 9, tier="thorough"))
    O.append(mod_params_1276("mod_params_bw7", 0, tier="thorough"))
    O.append(mod_params_1276("mod_params_any_bw", None, tier="thorough"))
    O.append(regop("pkt_params", params=[("pre", "u16"), ("imp", "bool"), ("plen", "u8"), ("crc", "bool"), ("iq", "bool")], radio=RADIO_1276 % "kani::any()", cost=300,
                   rust_pre="let pp = PacketParams { preamble_length: pre as u16, implicit_header: imp != 0, payload_length: plen as u8, crc_on: crc != 0, iq_inverted: iq != 0 };",
                   rust="r.set_packet_params(&pp)", encodes="Sx127x::set_packet_params, Sx1276::set_packet_params",
                   note="the reference's set_lora_pkt_params is a composite: it also forces standby (0x01), zeroes both FIFO base addresses (0x0E, 0x0F) and pins RegPayloadLength/RegMaxPayloadLength (0x22, 0x23); the Rust driver writes the IQ registers (0x33, 0x3B) here while the reference does so in set_tx/set_rx, and RegPayloadLength only for implicit headers: those registers are the documented differences and not compared",
                   c="sx127x_lora_pkt_params_t p = { .preamble_len_in_symb = (uint16_t)pre, .header_type = imp ? SX127X_LORA_PKT_IMPLICIT : SX127X_LORA_PKT_EXPLICIT, .pld_len_in_bytes = (uint8_t)plen, .crc_is_on = crc != 0, .invert_iq_is_on = iq != 0 };\nsx127x_set_lora_pkt_params(&RADIO, &p);",
                   regs={0x1D: "(r(0x1D) & 0xFE) | imp", 0x1E: "(r(0x1E) & 0xFB) | (crc << 2)", 0x20: "pre >> 8", 0x21: "pre & 0xFF"},
                   free_c=[0x01, 0x0E, 0x0F, 0x22, 0x23], free_rust=[0x22, 0x33, 0x3B]))
    O.append(regop("payload", params=[("n", "range(0,255)")], payload=True, radio=RADIO_1276 % "kani::any()", cost=200,
                   rust="r.set_payload(&pl[..n as usize])", encodes="Sx127x::set_payload, write_buffer",
                   note="the reference zeroes RegFifoTxBaseAddr (0x0E) here, the Rust driver in set_tx_rx_buffer_base_address: not compared on the reference side",
                   c="RADIO.lora_pkt_params.pld_len_in_bytes = (uint8_t)n;\nsx127x_write_buffer(&RADIO, 0, pl, (uint8_t)n);",
                   regs={0x0D: "0", 0x22: "n"}, free_c=[0x0E]))
    O.append(regop("irq_tx_start", radio=RADIO_1276 % "kani::any()", cost=200, tier="thorough",
                   rust=["r.set_irq_params(Some(RadioMode::Transmit))", "r.do_tx()"], encodes="Sx127x::set_irq_params (Transmit), do_tx",
                   assume_init=["r(0x40) == 0", "r(0x41) == 0"],
                   note="IRQ mask + DIO mapping + TX start: the reference keeps the DIO mapping in a shadow copy (all zero after selecting LoRa) and pushes it in set_tx, the Rust driver read-modify-writes RegDioMapping1 in set_irq_params: compared for the shadow-consistent prior content 0; the reference also pushes the IQ registers here (not compared on its side)",
                   c="sx127x_set_irq_mask(&RADIO, SX127X_IRQ_TX_DONE);\nsx127x_set_tx(&RADIO);",
                   regs={0x11: "0xF7", 0x40: "0x40", 0x01: "0x83"}, free_c=[0x33, 0x3B]))
    O.append(regop("irq_cad_start", radio=RADIO_1276 % "kani::any()", cost=200, tier="thorough",
                   rust_pre="let mp = ModulationParams { spreading_factor: SpreadingFactor::_7, bandwidth: Bandwidth::_125KHz, coding_rate: CodingRate::_4_5, low_data_rate_optimize: 0, frequency_in_hz: 868_100_000 };",
                   rust=["r.set_irq_params(Some(RadioMode::ChannelActivityDetection))", "r.do_cad(&mp)"], encodes="Sx127x::set_irq_params (CAD), do_cad",
                   assume_init=["r(0x40) == 0", "r(0x41) == 0"],
                   note="as irq_tx_start; the Rust driver also re-asserts the LNA gain (RegLna), the reference leaves it: not compared on the Rust side",
                   c="sx127x_set_irq_mask(&RADIO, SX127X_IRQ_CAD_DONE | SX127X_IRQ_CAD_DETECTED);\nsx127x_set_cad(&RADIO);",
                   regs={0x11: "0xFA", 0x40: "0x80", 0x01: "0x87"}, free_rust=[0x0C]))
    O.append(regop("tx_start", radio=RADIO_1276 % "kani::any()", rust="r.do_tx()", encodes="Sx127x::do_tx",
                   note="the reference's set_tx also pushes the IQ configuration (0x33, 0x3B) and its shadow DIO mapping (0x40, 0x41) at this point; the Rust driver does so in set_packet_params / set_irq_params: not compared on the reference side",
                   c="sx127x_set_tx(&RADIO);", regs={1: "0x83"}, free_c=[0x33, 0x3B, 0x40, 0x41]))
    return O


# ---- SX1272 specification --------------------------------------------------------------------------
RADIO_1272 = "Sx127x::new(RegSpi::new(), MockIv::new(), Config { chip: Sx1272, tcxo_used: false, tx_boost: %s, rx_boost: kani::any() })"


def ops_sx1272():
    O = []
    for o in ops_sx1276():
        if o["id"] in ("rf_freq", "standby", "sleep", "sync_word", "symb_timeout", "payload", "tx_start", "irq_tx_start", "irq_cad_start"):
            o = dict(o)
            o["radio"] = RADIO_1272 % "kani::any()"
            O.append(o)
    O.append(regop("mod_params", params=[("sf", "idx(7)"), ("bw", "idx(3)"), ("cr", "idx(4)"), ("ldro", "bool")], radio=RADIO_1272 % "kani::any()", cost=300,
                   rust_pre="let mp = ModulationParams { spreading_factor: sf_of(sf + 1), bandwidth: bw_of(bw + 7), coding_rate: cr_of(cr), low_data_rate_optimize: ldro as u8, frequency_in_hz: kani::any() };",
                   rust="r.set_modulation_params(&mp)", encodes="Sx127x::set_modulation_params, Sx1272::set_modulation_params, Sx1272::bandwidth_value, coding_rate_value",
                   c="sx127x_lora_mod_params_t p = { .sf = SFS[sf], .bw = BWS[bw + 7], .cr = CRS[cr], .ldro = (uint8_t)ldro };\nsx127x_set_lora_mod_params(&RADIO, &p);",
                   regs={0x1D: "(r(0x1D) & 0x06) | (bw << 6) | ((cr + 1) << 3) | ldro",
                         0x1E: "(r(0x1E) & 0x0F) | ((sf + 6) << 4)",
                         0x31: "(r(0x31) & 0xF8) | (5 if sf == 0 else 3)",
                         0x37: "0x0C if sf == 0 else 0x0A"}))
    O.append(regop("pkt_params", params=[("pre", "u16"), ("imp", "bool"), ("plen", "u8"), ("crc", "bool"), ("iq", "bool")], radio=RADIO_1272 % "kani::any()", cost=300,
                   rust_pre="let pp = PacketParams { preamble_length: pre as u16, implicit_header: imp != 0, payload_length: plen as u8, crc_on: crc != 0, iq_inverted: iq != 0 };",
                   rust="r.set_packet_params(&pp)", encodes="Sx127x::set_packet_params, Sx1272::set_packet_params",
                   note="as for the SX1276: the reference's composite also forces standby, zeroes the FIFO base addresses and pins RegPayloadLength/RegMaxPayloadLength; the Rust driver writes the IQ registers here and RegPayloadLength only for implicit headers",
                   c="sx127x_lora_pkt_params_t p = { .preamble_len_in_symb = (uint16_t)pre, .header_type = imp ? SX127X_LORA_PKT_IMPLICIT : SX127X_LORA_PKT_EXPLICIT, .pld_len_in_bytes = (uint8_t)plen, .crc_is_on = crc != 0, .invert_iq_is_on = iq != 0 };\nsx127x_set_lora_pkt_params(&RADIO, &p);",
                   regs={0x1D: "(r(0x1D) & 0xF9) | (imp << 2) | (crc << 1)", 0x20: "pre >> 8", 0x21: "pre & 0xFF"},
                   free_c=[0x01, 0x0E, 0x0F, 0x22, 0x23], free_rust=[0x22, 0x33, 0x3B]))
    # TX power: q = requested dBm + 128
    O.append(regop("tx_power_boost", params=[("q", "u8"), ("prep", "bool")], radio=RADIO_1272 % "true",
                   lets=[("hi", "1 if q > 145 else 0"),
                         ("c", "(133 if q < 133 else (148 if q > 148 else q)) if hi else (130 if q < 130 else (145 if q > 145 else q))"),
                         ("opw", "(c - 128 - (5 if hi else 2)) & 0x0F")],
                   assume_init=["(r(0x0A) & 0xF0) == 0x10", "(r(0x5A) & 0xF8) == 0x80"],
                   rust="r.set_tx_power_and_ramp_time(q as i32 - 128, None, prep != 0)",
                   encodes="Sx127x::set_tx_power_and_ramp_time, Sx1272::set_tx_power (PA_BOOST), Sx1272::ramp_value",
                   note="the reference takes the clamped power and the +20 dBm switch from its caller (passed as the Rust driver chooses them: above 17 dBm PaDac on and clamp to 5..=20, else clamp to 2..=17); RegPaConfig bits 6:4 are unused on the SX1272 and not compared; reserved bits of RegPaRamp (LowPnTxPllOff = 1) and RegPaDac assumed at their reset values",
                   c="sx127x_pa_cfg_params_t pc = { .pa_select = SX127X_PA_SELECT_BOOST, .is_20_dbm_output_on = hi != 0 };\nsx127x_set_pa_cfg(&RADIO, &pc);\nsx127x_set_tx_params(&RADIO, (int8_t)((int)c - 128), prep ? SX127X_RAMP_40_US : SX127X_RAMP_250_US);",
                   regs={0x09: ("0x80 | opw", 0x8F), 0x0A: "0x10 | (9 if prep else 4)", 0x5A: "0x87 if hi else 0x84"}))
    O.append(regop("tx_power_rfo", params=[("q", "u8"), ("prep", "bool")], radio=RADIO_1272 % "false", tier="thorough",
                   lets=[("c", "127 if q < 127 else (142 if q > 142 else q)"), ("opw", "(c - 127) & 0x0F")],
                   assume_init=["(r(0x0A) & 0xF0) == 0x10", "(r(0x5A) & 0xF8) == 0x80"],
                   rust="r.set_tx_power_and_ramp_time(q as i32 - 128, None, prep != 0)",
                   encodes="Sx127x::set_tx_power_and_ramp_time, Sx1272::set_tx_power (RFO)",
                   note="clamp to -1..=14 dBm (OutputPower = Pout + 1); otherwise as tx_power_boost",
                   c="sx127x_pa_cfg_params_t pc = { .pa_select = SX127X_PA_SELECT_RFO, .is_20_dbm_output_on = false };\nsx127x_set_pa_cfg(&RADIO, &pc);\nsx127x_set_tx_params(&RADIO, (int8_t)((int)c - 128), prep ? SX127X_RAMP_40_US : SX127X_RAMP_250_US);",
                   regs={0x09: ("opw", 0x8F), 0x0A: "0x10 | (9 if prep else 4)", 0x5A: "0x84"}))
    return O


RS_HEAD = {
    "sx1272": """//@file anchor=lora-phy/src/sx127x/mod.rs
// GENERATED by lib/c13gen.py from the C13 register specification -- do not edit; regenerated on
// every run of `check.py C13`.  Rust side of C13 for the SX1272 (reference: SWL2001 sx127x.c, -DSX1272).
use super::*;
use crate::verif_kani_lora_phy_mock::*;
use crate::verif_kani_lora_phy_regmock::{rf, RegSpi};
""",
    "sx1276": """//@file anchor=lora-phy/src/sx127x/mod.rs
// GENERATED by lib/c13gen.py from the C13 register specification -- do not edit; regenerated on
// every run of `check.py C13`.  Rust side of C13 for the SX1276: the register file the driver
// leaves behind equals the specification that CBMC proves Semtech's reference driver (SWL2001
// sx127x.c, -DSX1276) to follow (lib/engines.py job c13_reference_sx1276).
use super::*;
use crate::verif_kani_lora_phy_mock::*;
use crate::verif_kani_lora_phy_regmock::{rf, RegSpi};
""",
    "sx126x": """//@file anchor=lora-phy/src/sx126x/mod.rs
// GENERATED by lib/c13gen.py from the C13 byte specification -- do not edit; regenerated on every
// run of `check.py C13`.  Rust side of C13: the SX126x driver's SPI bytes equal the specification
// that CBMC proves Semtech's reference driver (SWL2001) to follow (lib/engines.py job c13_reference).
use super::*;
use crate::verif_kani_lora_phy_mock::*;
use super::verif_kani_lora_phy_sx126x_h::{radio_1261, radio_1262, radio_wl};
""",
}


CHIPS = ("sx126x", "sx1276", "sx1272")
C_DEFINES = {"sx127x": ["-DSX1276"], "sx1276": ["-DSX1276"], "sx1272": ["-DSX1272"]}
C_SRC = {"sx126x": "sx126x", "sx1276": "sx127x", "sx1272": "sx127x"}


def ops_for(chip):
    return {"sx126x": ops_sx126x, "sx1276": ops_sx1276, "sx1272": ops_sx1272}[chip]()


def generate(chips=("sx126x",)):
    """(re)write the generated Rust harness files; returns the list of paths"""
    out = []
    for chip in chips:
        text = RS_HEAD[chip] + "\n" + "\n".join((gen_rust_regop if o.get("kind") == "regs" else gen_rust_op)(chip, o) for o in ops_for(chip))
        path = os.path.join(VERIF, "harness", "lora-phy", "c13_%s_gen.rs" % chip)
        old = open(path).read() if os.path.exists(path) else None
        if old != text:
            open(path, "w").write(text)
        out.append(path)
    return out


FILLS = (0x00, 0xFF, 0x5A, 0xA5, 0x0C, 0xF3)


def replay_tests(harness_id, values):
    """native replay tests (source text) for the generated harness `harness_id` with the parameter
    values of the solver's counterexample and several concrete chip contents; [] if unknown"""
    for chip in CHIPS:
        for o in ops_for(chip):
            if "c13_%s_%s" % (chip, o["id"]) == harness_id:
                gen = gen_rust_regop if o.get("kind") == "regs" else gen_rust_op
                return [gen(chip, o, replay=dict(k=k, values=values, fill=fill)) for k, fill in enumerate(FILLS)]
    return []


def param_names(harness_id):
    for chip in CHIPS:
        for o in ops_for(chip):
            if "c13_%s_%s" % (chip, o["id"]) == harness_id:
                return [n for n, _ in o["params"]]
    return []


def c_harness(chip):
    ops = ops_for(chip)
    if ops and ops[0].get("kind") == "regs":
        rid = {"sx1276": "SX127X_RADIO_ID_SX1276", "sx1272": "SX127X_RADIO_ID_SX1272"}[chip]
        return C_PRELUDE_REGS + "#define RADIO_ID %s\n" % rid + C_RADIO_PREPARE["sx1276"] + "\n" + "\n".join(gen_c_regop(chip, o) for o in ops)
    return C_PRELUDE + C_HAL[chip] + "\n" + "\n".join(gen_c_op(chip, o) for o in ops)


if __name__ == "__main__":
    import sys
    print("\n".join(generate(CHIPS)))
    if len(sys.argv) > 1:
        open(sys.argv[1], "w").write(c_harness("sx126x"))
