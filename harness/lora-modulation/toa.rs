//@file anchor=lora-modulation/src/lib.rs
// C16 (airtime) and the lora-modulation part of C15 (LDRO rule).
use super::*;

pub(crate) fn any_sf() -> SpreadingFactor {
    let i: u8 = kani::any();
    kani::assume(i < 8);
    match i {
        0 => SpreadingFactor::_5,
        1 => SpreadingFactor::_6,
        2 => SpreadingFactor::_7,
        3 => SpreadingFactor::_8,
        4 => SpreadingFactor::_9,
        5 => SpreadingFactor::_10,
        6 => SpreadingFactor::_11,
        _ => SpreadingFactor::_12,
    }
}
pub(crate) fn any_bw() -> Bandwidth {
    let i: u8 = kani::any();
    kani::assume(i < 10);
    match i {
        0 => Bandwidth::_7KHz,
        1 => Bandwidth::_10KHz,
        2 => Bandwidth::_15KHz,
        3 => Bandwidth::_20KHz,
        4 => Bandwidth::_31KHz,
        5 => Bandwidth::_41KHz,
        6 => Bandwidth::_62KHz,
        7 => Bandwidth::_125KHz,
        8 => Bandwidth::_250KHz,
        _ => Bandwidth::_500KHz,
    }
}
pub(crate) fn any_cr() -> CodingRate {
    let i: u8 = kani::any();
    kani::assume(i < 4);
    match i {
        0 => CodingRate::_4_5,
        1 => CodingRate::_4_6,
        2 => CodingRate::_4_7,
        _ => CodingRate::_4_8,
    }
}

// Independent reference, written from the datasheets (not from the code under test).
fn ref_sf(sf: SpreadingFactor) -> i64 {
    match sf {
        SpreadingFactor::_5 => 5,
        SpreadingFactor::_6 => 6,
        SpreadingFactor::_7 => 7,
        SpreadingFactor::_8 => 8,
        SpreadingFactor::_9 => 9,
        SpreadingFactor::_10 => 10,
        SpreadingFactor::_11 => 11,
        SpreadingFactor::_12 => 12,
    }
}
fn ref_bw(bw: Bandwidth) -> i64 {
    match bw {
        Bandwidth::_7KHz => 7_810,
        Bandwidth::_10KHz => 10_420,
        Bandwidth::_15KHz => 15_630,
        Bandwidth::_20KHz => 20_830,
        Bandwidth::_31KHz => 31_250,
        Bandwidth::_41KHz => 41_670,
        Bandwidth::_62KHz => 62_500,
        Bandwidth::_125KHz => 125_000,
        Bandwidth::_250KHz => 250_000,
        Bandwidth::_500KHz => 500_000,
    }
}
fn ref_cr(cr: CodingRate) -> i64 {
    match cr {
        CodingRate::_4_5 => 5,
        CodingRate::_4_6 => 6,
        CodingRate::_4_7 => 7,
        CodingRate::_4_8 => 8,
    }
}
/// symbol time truncated to the microsecond (as documented by `t_sym_us`)
fn ref_tsym(sf: SpreadingFactor, bw: Bandwidth) -> i64 {
    (1i64 << ref_sf(sf)) * 1_000_000 / ref_bw(bw)
}
/// LDRO rule: on exactly when 2^SF/BW >= 16.38 ms  (2^SF * 10^5 >= 1638 * BW_Hz)
pub(crate) fn ref_ldro(sf: SpreadingFactor, bw: Bandwidth) -> bool {
    (1i64 << ref_sf(sf)) * 100_000 >= 1638 * ref_bw(bw)
}
/// mathematically exact ceil(a / b) for b > 0
fn ceil_div(a: i64, b: i64) -> i64 {
    let q = a / b;
    if a % b != 0 && a > 0 { q + 1 } else { q }
}
/// Semtech AN1200.13 / SX127x datasheet 4.1.1.7 (CRC on), integer-exact.
fn ref_payload_symbols(sf: i64, de: i64, cr: i64, h: i64, len: i64) -> i64 {
    let num = 8 * len - 4 * sf + 28 + 16 - 20 * h;
    let den = 4 * (sf - 2 * de);
    let c = ceil_div(num, den) * cr;
    8 + if c > 0 { c } else { 0 }
}
fn ref_toa(sf: SpreadingFactor, bw: Bandwidth, cr: CodingRate, preamble: Option<u8>, explicit: bool, len: u8) -> i64 {
    let t = ref_tsym(sf, bw);
    let de = if t >= 16_384 { 1 } else { 0 };
    let n = ref_payload_symbols(ref_sf(sf), de, ref_cr(cr), if explicit { 0 } else { 1 }, len as i64);
    match preamble {
        None => t * n,
        // (preamble + 4.25 + n) * t_sym, truncated to the microsecond
        Some(p) => (4 * (p as i64) + 17 + 4 * n) * t / 4,
    }
}

//@h id=toa_matches_reference props=C16 tier=quick build=mod cost=60 timeout=600
//@bounds all 8 SF x 10 BW x 4 CR x len 0..=255 x explicit/implicit header x preamble None|Some(0..=255): the complete input space (about 42e6 cases), decided in one SAT query
//@encodes BaseBandModulationParams::new, BaseBandModulationParams::time_on_air_us (incl. local div_ceil), Bandwidth::hz, SpreadingFactor::factor, CodingRate::denom
//@assumes reference = Semtech SX127x/AN1200.13 formula with CRC on, evaluated in i64 with the symbol time truncated to the microsecond
#[kani::proof]
#[kani::unwind(8)]
fn toa_matches_reference() {
    let (sf, bw, cr) = (any_sf(), any_bw(), any_cr());
    let preamble: Option<u8> = kani::any();
    let explicit: bool = kani::any();
    let len: u8 = kani::any();
    let p = BaseBandModulationParams::new(sf, bw, cr);
    // every arithmetic overflow check inside new()/time_on_air_us() is a proof obligation as well
    let got = p.time_on_air_us(preamble, explicit, len);
    let want = ref_toa(sf, bw, cr, preamble, explicit, len);
    kani::cover!(len == 0 && matches!(sf, SpreadingFactor::_12), "zero-length frame at SF12 (negative numerator)");
    kani::cover!(len == 255 && preamble == Some(255), "longest frame, longest preamble");
    assert!(want <= u32::MAX as i64, "C16: reference airtime exceeds u32");
    assert!(got as i64 == want, "C16: time_on_air_us differs from the Semtech formula");
}

//@h id=toa_monotone props=C16 tier=quick build=mod cost=120 timeout=900
//@bounds all SF x BW x CR x header x preamble x every adjacent pair (len, len+1), len 0..=254; monotonicity over any pair follows by transitivity
//@encodes BaseBandModulationParams::new, BaseBandModulationParams::time_on_air_us
#[kani::proof]
#[kani::unwind(8)]
fn toa_monotone() {
    let (sf, bw, cr) = (any_sf(), any_bw(), any_cr());
    let preamble: Option<u8> = kani::any();
    let explicit: bool = kani::any();
    let len: u8 = kani::any();
    kani::assume(len < 255);
    let p = BaseBandModulationParams::new(sf, bw, cr);
    let a = p.time_on_air_us(preamble, explicit, len);
    let b = p.time_on_air_us(preamble, explicit, len + 1);
    kani::cover!(a < b, "strictly longer");
    assert!(a <= b, "C16: time on air decreases when the payload grows");
}

// symbols_to_ms / delay_in_symbols are decided by the E2 engine (lib/engines.py: job_c16_symbols)

//@h id=ldro_rule_modulation props=C15 tier=quick build=mod cost=5 timeout=300
//@bounds all 8 SF x 10 BW (80 pairs) x 4 CR in one query
//@encodes BaseBandModulationParams::new
#[kani::proof]
#[kani::unwind(8)]
fn ldro_rule_modulation() {
    let (sf, bw, cr) = (any_sf(), any_bw(), any_cr());
    let p = BaseBandModulationParams::new(sf, bw, cr);
    kani::cover!(p.ldro, "ldro on");
    kani::cover!(!p.ldro, "ldro off");
    assert!(p.ldro == ref_ldro(sf, bw), "C15: airtime calculator LDRO decision differs from 2^SF/BW >= 16.38 ms");
}
