//@file anchor=lorawan-encoding/src/maccommandcreator.rs
// C19 (LoRaWAN MAC command set): builder -> parser round trips with every field symbolic;
// C03: MacCommandSet::parse_one / iterator on arbitrary bytes for the two LoRaWAN MAC sets.
use super::*;
use crate::maccommands::*;

fn dl_one(b: &[u8]) -> DownlinkMacCommand<'_> {
    match <DownlinkMacCommand<'_> as MacCommandSet<'_>>::parse_one(b) {
        Ok((c, n)) => {
            assert!(n == b.len(), "C19: a built command parses back consuming exactly its bytes");
            c
        }
        Err(_) => {
            assert!(false, "C19: a built downlink command must parse");
            unreachable!()
        }
    }
}
fn ul_one(b: &[u8]) -> UplinkMacCommand<'_> {
    match <UplinkMacCommand<'_> as MacCommandSet<'_>>::parse_one(b) {
        Ok((c, n)) => {
            assert!(n == b.len(), "C19: a built command parses back consuming exactly its bytes");
            c
        }
        Err(_) => {
            assert!(false, "C19: a built uplink command must parse");
            unreachable!()
        }
    }
}

//@h id=rt_downlink_cmds props=C19 tier=quick build=enc cost=60 timeout=900
//@bounds every downlink LoRaWAN MAC command (LinkCheckAns, LinkADRReq, DutyCycleReq, RXParamSetupReq, DevStatusReq, NewChannelReq, RXTimingSetupReq, TXParamSetupReq, DlChannelReq, DeviceTimeAns) with every field value symbolic (admissible values round-trip, out-of-range values are refused and leave the command unchanged)
//@encodes derive-generated *Creator::{new,build}, all setters of maccommandcreator.rs, DownlinkMacCommand::parse_one, payload accessors of maccommands.rs
#[kani::proof]
#[kani::unwind(8)]
fn rt_downlink_cmds() {
    // LinkCheckAns
    {
        let (m, g): (u8, u8) = (kani::any(), kani::any());
        let mut c = LinkCheckAnsCreator::new();
        c.set_margin(m).set_gateway_count(g);
        match dl_one(c.build()) {
            DownlinkMacCommand::LinkCheckAns(p) => assert!(p.margin() == m && p.gateway_count() == g, "C19: LinkCheckAns fields"),
            _ => assert!(false, "C19: LinkCheckAns parses as LinkCheckAns"),
        }
    }
    // LinkADRReq
    {
        let (dr, pw, m0, m1, red): (u8, u8, u8, u8, u8) = (kani::any(), kani::any(), kani::any(), kani::any(), kani::any());
        let mut c = LinkADRReqCreator::new();
        let r1 = c.set_data_rate(dr).is_ok();
        let r2 = c.set_tx_power(pw).is_ok();
        c.set_channel_mask(ChannelMask::<2>::from([m0, m1])).set_redundancy(red);
        assert!(r1 == (dr <= 15) && r2 == (pw <= 15), "C19: LinkADRReq refuses exactly the out-of-range DataRate / TXPower");
        match dl_one(c.build()) {
            DownlinkMacCommand::LinkADRReq(p) => {
                assert!(p.data_rate() as u8 == if dr <= 15 { dr } else { 0 }, "C19: LinkADRReq DataRate (a refused value leaves the field untouched)");
                assert!(p.tx_power() as u8 == if pw <= 15 { pw } else { 0 }, "C19: LinkADRReq TXPower (a refused value leaves the field untouched)");
                assert!(p.channel_mask().get_index(0) == m0 && p.channel_mask().get_index(1) == m1, "C19: LinkADRReq ChMask");
                assert!(p.redundancy().raw_value() == red, "C19: LinkADRReq Redundancy");
                assert!(p.redundancy().channel_mask_control() == (red >> 4) & 7 && p.redundancy().number_of_transmissions() == red & 0x0f, "C19: Redundancy sub-fields");
            }
            _ => assert!(false, "C19: LinkADRReq parses as LinkADRReq"),
        }
    }
    // DutyCycleReq
    {
        let d: u8 = kani::any();
        let mut c = DutyCycleReqCreator::new();
        let ok = c.set_max_duty_cycle(d).is_ok();
        assert!(ok == (d <= 15), "C19: DutyCycleReq refuses values beyond 4 bits");
        match dl_one(c.build()) {
            DownlinkMacCommand::DutyCycleReq(p) => assert!(p.max_duty_cycle_raw() == if ok { d } else { 0 }, "C19: DutyCycleReq MaxDCycle"),
            _ => assert!(false, "C19: DutyCycleReq parses as DutyCycleReq"),
        }
    }
    // RXParamSetupReq
    {
        let (dl, f): (u8, [u8; 3]) = (kani::any(), kani::any());
        let mut c = RXParamSetupReqCreator::new();
        c.set_dl_settings(dl).set_frequency(&f);
        match dl_one(c.build()) {
            DownlinkMacCommand::RXParamSetupReq(p) => {
                assert!(p.dl_settings().raw_value() == dl, "C19: RXParamSetupReq DLSettings");
                assert!(p.frequency().value() == (f[0] as u32 | (f[1] as u32) << 8 | (f[2] as u32) << 16) * 100, "C19: RXParamSetupReq frequency (little-endian, 100 Hz units)");
            }
            _ => assert!(false, "C19: RXParamSetupReq parses as RXParamSetupReq"),
        }
    }
    // DevStatusReq
    {
        let c = DevStatusReqCreator::new();
        assert!(matches!(dl_one(c.build()), DownlinkMacCommand::DevStatusReq(_)), "C19: DevStatusReq round trip");
    }
    // NewChannelReq
    {
        let (i, f, r): (u8, [u8; 3], u8) = (kani::any(), kani::any(), kani::any());
        let mut c = NewChannelReqCreator::new();
        c.set_channel_index(i).set_frequency(&f).set_data_rate_range(r);
        match dl_one(c.build()) {
            DownlinkMacCommand::NewChannelReq(p) => {
                assert!(p.channel_index() == i, "C19: NewChannelReq ChIndex");
                assert!(p.frequency().value() == (f[0] as u32 | (f[1] as u32) << 8 | (f[2] as u32) << 16) * 100, "C19: NewChannelReq frequency");
                match p.data_rate_range() {
                    Ok(x) => assert!(x.raw_value() == r && x.min_data_rate() == r & 0x0f && x.max_data_rate() == r >> 4, "C19: NewChannelReq DrRange"),
                    Err(_) => assert!((r >> 4) < (r & 0x0f), "C19: only inverted DrRange values are rejected"),
                }
            }
            _ => assert!(false, "C19: NewChannelReq parses as NewChannelReq"),
        }
    }
    // RXTimingSetupReq
    {
        let d: u8 = kani::any();
        let mut c = RXTimingSetupReqCreator::new();
        let ok = c.set_delay(d).is_ok();
        assert!(ok == (d <= 15), "C19: RXTimingSetupReq refuses delays beyond 4 bits");
        match dl_one(c.build()) {
            DownlinkMacCommand::RXTimingSetupReq(p) => assert!(p.delay() == if ok { d } else { 0 }, "C19: RXTimingSetupReq Del"),
            _ => assert!(false, "C19: RXTimingSetupReq parses as RXTimingSetupReq"),
        }
    }
    // TXParamSetupReq
    {
        let (dd, ud, e): (bool, bool, u8) = (kani::any(), kani::any(), kani::any());
        let mut c = TXParamSetupReqCreator::new();
        c.set_downlink_dwell_time(dd).set_uplink_dwell_time(ud);
        let ok = c.set_max_eirp(e).is_ok();
        assert!(ok == (e <= 15), "C19: TXParamSetupReq refuses MaxEIRP beyond 4 bits");
        match dl_one(c.build()) {
            DownlinkMacCommand::TXParamSetupReq(p) => {
                assert!(p.downlink_dwell_time() == dd && p.uplink_dwell_time() == ud, "C19: TXParamSetupReq dwell times");
                let table = [8u8, 10, 12, 13, 14, 16, 18, 20, 21, 24, 26, 27, 29, 30, 33, 36];
                assert!(p.max_eirp() == table[if ok { e as usize } else { 0 }], "C19: TXParamSetupReq MaxEIRP (coded per LoRaWAN 1.0.3 table)");
            }
            _ => assert!(false, "C19: TXParamSetupReq parses as TXParamSetupReq"),
        }
    }
    // DlChannelReq
    {
        let (i, f): (u8, [u8; 3]) = (kani::any(), kani::any());
        let mut c = DlChannelReqCreator::new();
        c.set_channel_index(i).set_frequency(&f);
        match dl_one(c.build()) {
            DownlinkMacCommand::DlChannelReq(p) => {
                assert!(p.channel_index() == i, "C19: DlChannelReq ChIndex");
                assert!(p.frequency().value() == (f[0] as u32 | (f[1] as u32) << 8 | (f[2] as u32) << 16) * 100, "C19: DlChannelReq frequency");
            }
            _ => assert!(false, "C19: DlChannelReq parses as DlChannelReq"),
        }
    }
    // DeviceTimeAns
    {
        let (s, frac): (u32, u8) = (kani::any(), kani::any());
        let mut c = DeviceTimeAnsCreator::new();
        c.set_seconds(s); // the seconds field has its own harness (rt_device_time_ans_seconds)
        let ok = c.set_nano_seconds(frac as u32 * 3906250).is_ok();
        assert!(ok, "C19: every 1/256 s fraction is admissible");
        match dl_one(c.build()) {
            DownlinkMacCommand::DeviceTimeAns(p) => {
                assert!(p.nano_seconds() == frac as u32 * 3906250, "C19: DeviceTimeAns fractional second");
            }
            _ => assert!(false, "C19: DeviceTimeAns parses as DeviceTimeAns"),
        }
    }
}

//@h id=rt_device_time_ans_seconds props=C19 tier=quick build=enc cost=10 timeout=600
//@bounds all 2^32 values of the DeviceTimeAns seconds field: set_seconds -> build -> parse -> seconds()
//@encodes DeviceTimeAnsCreator::set_seconds, DeviceTimeAnsPayload::seconds
#[kani::proof]
#[kani::unwind(8)]
fn rt_device_time_ans_seconds() {
    let secs: u32 = kani::any();
    let mut c = DeviceTimeAnsCreator::new();
    c.set_seconds(secs);
    match dl_one(c.build()) {
        DownlinkMacCommand::DeviceTimeAns(p) => {
            let got = p.seconds();
            kani::assert(got == secs, "C19: DeviceTimeAns seconds round trip");
        }
        _ => assert!(false, "C19: DeviceTimeAns parses as DeviceTimeAns"),
    }
}

//@h id=rt_uplink_cmds props=C19 tier=quick build=enc cost=60 timeout=900
//@bounds every uplink LoRaWAN MAC command with every field value symbolic
//@encodes uplink *Creator setters, UplinkMacCommand::parse_one, payload accessors
#[kani::proof]
#[kani::unwind(8)]
fn rt_uplink_cmds() {
    assert!(matches!(ul_one(LinkCheckReqCreator::new().build()), UplinkMacCommand::LinkCheckReq(_)), "C19: LinkCheckReq");
    assert!(matches!(ul_one(DutyCycleAnsCreator::new().build()), UplinkMacCommand::DutyCycleAns(_)), "C19: DutyCycleAns");
    assert!(matches!(ul_one(RXTimingSetupAnsCreator::new().build()), UplinkMacCommand::RXTimingSetupAns(_)), "C19: RXTimingSetupAns");
    assert!(matches!(ul_one(TXParamSetupAnsCreator::new().build()), UplinkMacCommand::TXParamSetupAns(_)), "C19: TXParamSetupAns");
    assert!(matches!(ul_one(DeviceTimeReqCreator::new().build()), UplinkMacCommand::DeviceTimeReq(_)), "C19: DeviceTimeReq");
    let (a, b, c3): (bool, bool, bool) = (kani::any(), kani::any(), kani::any());
    {
        let mut c = LinkADRAnsCreator::new();
        c.set_channel_mask_ack(a).set_data_rate_ack(b).set_tx_power_ack(c3);
        match ul_one(c.build()) {
            UplinkMacCommand::LinkADRAns(p) => {
                assert!(p.channel_mask_ack() == a && p.data_rate_ack() == b && p.powert_ack() == c3, "C19: LinkADRAns status bits");
                assert!(p.ack() == (a && b && c3), "C19: LinkADRAns ack()");
                assert!(p.bytes()[0] & 0xF8 == 0, "C19: LinkADRAns RFU bits stay clear");
            }
            _ => assert!(false, "C19: LinkADRAns parses as LinkADRAns"),
        }
    }
    {
        let mut c = RXParamSetupAnsCreator::new();
        c.set_channel_ack(a).set_rx2_data_rate_ack(b).set_rx1_data_rate_offset_ack(c3);
        match ul_one(c.build()) {
            UplinkMacCommand::RXParamSetupAns(p) => {
                assert!(p.channel_ack() == a && p.rx2_data_rate_ack() == b && p.rx1_dr_offset_ack() == c3, "C19: RXParamSetupAns status bits");
                assert!(p.ack() == (a && b && c3) && p.bytes()[0] & 0xF8 == 0, "C19: RXParamSetupAns ack()/RFU");
            }
            _ => assert!(false, "C19: RXParamSetupAns parses as RXParamSetupAns"),
        }
    }
    {
        let (bat, m): (u8, i8) = (kani::any(), kani::any());
        let mut c = DevStatusAnsCreator::new();
        c.set_battery(bat);
        let ok = c.set_margin(m).is_ok();
        assert!(ok == (m >= -32 && m <= 31), "C19: DevStatusAns refuses margins beyond 6 bits");
        match ul_one(c.build()) {
            UplinkMacCommand::DevStatusAns(p) => {
                assert!(p.battery() == bat, "C19: DevStatusAns battery");
                assert!(p.margin() == if ok { m } else { 0 }, "C19: DevStatusAns margin (6-bit two's complement)");
                assert!(p.bytes()[1] & 0xC0 == 0, "C19: DevStatusAns RFU bits stay clear");
            }
            _ => assert!(false, "C19: DevStatusAns parses as DevStatusAns"),
        }
    }
    {
        let mut c = NewChannelAnsCreator::new();
        c.set_channel_frequency_ack(a).set_data_rate_range_ack(b);
        match ul_one(c.build()) {
            UplinkMacCommand::NewChannelAns(p) => {
                assert!(p.channel_freq_ack() == a && p.data_rate_range_ack() == b && p.ack() == (a && b), "C19: NewChannelAns status bits");
                assert!(p.bytes()[0] & 0xFC == 0, "C19: NewChannelAns RFU bits");
            }
            _ => assert!(false, "C19: NewChannelAns parses as NewChannelAns"),
        }
    }
    {
        let mut c = DlChannelAnsCreator::new();
        c.set_channel_frequency_ack(a).set_uplink_frequency_exists_ack(b);
        match ul_one(c.build()) {
            UplinkMacCommand::DlChannelAns(p) => {
                assert!(p.channel_freq_ack() == a && p.uplink_freq_ack() == b && p.ack() == (a && b), "C19: DlChannelAns status bits");
                assert!(p.bytes()[0] & 0xFC == 0, "C19: DlChannelAns RFU bits");
            }
            _ => assert!(false, "C19: DlChannelAns parses as DlChannelAns"),
        }
    }
}

//@h id=rt_build_sequence props=C19 tier=quick build=enc cost=60 timeout=900
//@bounds build_mac_commands of three commands (LinkADRAns, DevStatusAns, RXTimingSetupAns with symbolic fields) into buffers of 0..=12 bytes parses back to the same sequence; mac_commands_len agrees
//@encodes build_mac_commands, mac_commands_len, MacCommands iterator
#[kani::proof]
#[kani::unwind(8)]
fn rt_build_sequence() {
    let (a, bat): (bool, u8) = (kani::any(), kani::any());
    let mut c1 = LinkADRAnsCreator::new();
    c1.set_channel_mask_ack(a);
    let mut c2 = DevStatusAnsCreator::new();
    c2.set_battery(bat);
    let c3 = RXTimingSetupAnsCreator::new();
    let cmds: [&dyn SerializableMacCommand; 3] = [&c1, &c2, &c3];
    assert!(mac_commands_len(&cmds) == 6, "C19: mac_commands_len = sum of (1 + payload)");
    let blen: usize = kani::any();
    kani::assume(blen <= 12);
    let mut buf = [0u8; 12];
    match build_mac_commands(&cmds, &mut buf[..blen]) {
        Err(_) => assert!(blen < 6, "C19: build_mac_commands refuses only buffers that are too short"),
        Ok(n) => {
            assert!(n == 6 && blen >= 6, "C19: built length");
            let mut it = parse_uplink_mac_commands(&buf[..n]);
            match it.next() {
                Some(Ok(UplinkMacCommand::LinkADRAns(p))) => assert!(p.channel_mask_ack() == a, "C19: first command"),
                _ => assert!(false, "C19: first command parses back"),
            }
            match it.next() {
                Some(Ok(UplinkMacCommand::DevStatusAns(p))) => assert!(p.battery() == bat, "C19: second command"),
                _ => assert!(false, "C19: second command parses back"),
            }
            assert!(matches!(it.next(), Some(Ok(UplinkMacCommand::RXTimingSetupAns(_)))), "C19: third command parses back");
            assert!(it.next().is_none(), "C19: nothing else in the stream");
        }
    }
}

// ---- C03: parse_one / iterator on arbitrary bytes ------------------------------------------------
fn touch_dl(c: &DownlinkMacCommand<'_>) {
    match c {
        DownlinkMacCommand::LinkCheckAns(p) => { let _ = (p.margin(), p.gateway_count()); }
        DownlinkMacCommand::LinkADRReq(p) => { let _ = (p.data_rate(), p.tx_power(), p.channel_mask().is_enabled(15), p.redundancy().raw_value()); }
        DownlinkMacCommand::DutyCycleReq(p) => { let _ = p.max_duty_cycle_raw(); }
        DownlinkMacCommand::RXParamSetupReq(p) => { let _ = (p.dl_settings().rx2_data_rate(), p.frequency().value()); }
        DownlinkMacCommand::DevStatusReq(_) => {}
        DownlinkMacCommand::NewChannelReq(p) => { let _ = (p.channel_index(), p.frequency().value(), p.data_rate_range().is_ok()); }
        DownlinkMacCommand::RXTimingSetupReq(p) => { let _ = p.delay(); }
        DownlinkMacCommand::TXParamSetupReq(p) => { let _ = (p.downlink_dwell_time(), p.uplink_dwell_time(), p.max_eirp()); }
        DownlinkMacCommand::DlChannelReq(p) => { let _ = (p.channel_index(), p.frequency().value()); }
        DownlinkMacCommand::DeviceTimeAns(p) => { let _ = (p.seconds(), p.nano_seconds()); }
    }
}
fn touch_ul(c: &UplinkMacCommand<'_>) {
    match c {
        UplinkMacCommand::LinkADRAns(p) => { let _ = (p.channel_mask_ack(), p.data_rate_ack(), p.powert_ack(), p.ack()); }
        UplinkMacCommand::RXParamSetupAns(p) => { let _ = (p.channel_ack(), p.rx2_data_rate_ack(), p.rx1_dr_offset_ack(), p.ack()); }
        UplinkMacCommand::DevStatusAns(p) => { let _ = (p.battery(), p.margin()); }
        UplinkMacCommand::NewChannelAns(p) => { let _ = (p.channel_freq_ack(), p.data_rate_range_ack(), p.ack()); }
        UplinkMacCommand::DlChannelAns(p) => { let _ = (p.channel_freq_ack(), p.uplink_freq_ack(), p.ack()); }
        _ => {}
    }
}

//@h id=parse_one_downlink props=C03 tier=quick build=enc cost=40 timeout=900
//@bounds every non-empty byte string of length 1..=255 (every CID, every truncation point): parse_one returns a whole command inside the input or an error; every accessor of the parsed command is called
//@encodes DownlinkMacCommand::parse_one (derive-generated), all downlink payload accessors
#[kani::proof]
#[kani::unwind(8)]
fn parse_one_downlink() {
    let b: [u8; 255] = kani::any();
    let len: usize = kani::any();
    kani::assume(len >= 1 && len <= 255);
    let s = &b[..len];
    match <DownlinkMacCommand<'_> as MacCommandSet<'_>>::parse_one(s) {
        Ok((c, n)) => {
            assert!(n >= 1 && n <= len, "C03: a parsed command lies inside the input");
            assert!(c.len() + 1 == n, "C03: consumed bytes = CID + payload");
            let k: usize = kani::any();
            if k < c.len() {
                assert!(c.bytes()[k] == s[1 + k], "C03: the command's payload is the input bytes after the CID");
            }
            touch_dl(&c);
            kani::cover!(n == 6, "5-byte payload command");
        }
        Err(ParseError::Truncated { cid }) => assert!(cid == s[0], "C03: truncated error names the CID"),
        Err(ParseError::UnknownCid(cid)) => assert!(cid == s[0], "C03: unknown CID error names the CID"),
    }
}

//@h id=parse_one_uplink props=C03 tier=quick build=enc cost=40 timeout=900
//@bounds every non-empty byte string of length 1..=255 for the uplink LoRaWAN MAC set
//@encodes UplinkMacCommand::parse_one, all uplink payload accessors
#[kani::proof]
#[kani::unwind(8)]
fn parse_one_uplink() {
    let b: [u8; 255] = kani::any();
    let len: usize = kani::any();
    kani::assume(len >= 1 && len <= 255);
    let s = &b[..len];
    match <UplinkMacCommand<'_> as MacCommandSet<'_>>::parse_one(s) {
        Ok((c, n)) => {
            assert!(n >= 1 && n <= len && c.len() + 1 == n, "C03: a parsed command lies inside the input");
            touch_ul(&c);
        }
        Err(ParseError::Truncated { cid }) => assert!(cid == s[0], "C03: truncated error names the CID"),
        Err(ParseError::UnknownCid(cid)) => assert!(cid == s[0], "C03: unknown CID error names the CID"),
    }
}

