//@file anchor=lorawan-encoding/src/parser.rs
// C02: authentication and decoding of received frames.
use super::*;
use crate::default_crypto::{model, DefaultCrypto};
#[path = "common.rs"]
mod common;
use common::*;

//@h id=validate_mic_iff props=C02,C05 tier=quick build=enc cost=30 timeout=600
//@bounds every byte string of length 0..=255 x every 32-bit counter x every key: validate_mic is true iff the single CMAC call is made over B0(dir from MHDR bit 5, DevAddr, full 32-bit counter, len-4) | frame[..len-4] under the given key and its 4-byte result equals the trailing MIC
//@encodes EncryptedDataPayload::parse, EncryptedDataPayload::validate_mic, securityhelpers::calculate_data_mic, generate_helper_block
//@assumes AES-CMAC is an uninterpreted function of (key, B0, message); message bytes compared at one universally quantified index
#[kani::proof]
#[kani::unwind(6)]
fn validate_mic_iff() {
    let (b, len) = any_bytes(255);
    let probe: usize = kani::any();
    model::reset(probe);
    let key = any_key();
    let c = DefaultCrypto::new(&key);
    let fcnt: u32 = kani::any();
    let s = &b[..len];
    if let Ok(p) = EncryptedDataPayload::parse(s) {
        let ok = p.validate_mic(&c, fcnt);
        unsafe {
            assert!(model::MIC_N.v == 1, "C02: exactly one CMAC computation");
            assert!(model::ENC_N.v == 0, "C02: MIC validation must not run the block cipher directly");
            let m = &model::MICS.v[0];
            assert!(m.key == model::pack(&key.0), "C02: MIC under the given key");
            assert!(m.b0_len == 16, "C02: B0 is one block");
            let dir = if (b[0] >> 5) & 1 == 1 { 1 } else { 0 };
            assert!(m.b0 == ref_b0(dir, [b[1], b[2], b[3], b[4]], fcnt, len - 4), "C02: B0 contents");
            assert!(m.len == len - 4, "C02: MIC covers MHDR..FRMPayload");
            if probe < len - 4 {
                assert!(m.probe == b[probe], "C02: MIC message bytes are the frame bytes");
            }
            let eq = m.out[0] == b[len - 4] && m.out[1] == b[len - 3] && m.out[2] == b[len - 2] && m.out[3] == b[len - 1];
            assert!(ok == eq, "C02: authentic exactly when the computed MIC equals the frame's MIC");
            kani::cover!(ok && len == 255, "valid MIC on a 255-byte frame");
            kani::cover!(!ok, "invalid MIC");
        }
    }
}

//@h id=failed_check_leaves_buffer props=C02 tier=quick build=enc cost=60 timeout=900
//@bounds every byte string of length 0..=40, any keys (app key present or absent), any counter: Err from check_mic_and_decrypt_in_place => buffer byte-identical (compared at a universally quantified index)
//@encodes DecryptedDataPayload::check_mic_and_decrypt_in_place, decrypt_in_place, validate_mic
//@out frames longer than 40 bytes on this path
#[kani::proof]
#[kani::unwind(42)]
fn failed_check_leaves_buffer() {
    let (mut b, len) = any_bytes(40);
    let orig = b;
    model::reset(0);
    unsafe { model::CONSISTENT.v = false; }
    let nwk = DefaultCrypto::new(&any_key());
    let app = DefaultCrypto::new(&any_key());
    let use_app: bool = kani::any();
    let fcnt: u32 = kani::any();
    let r = DecryptedDataPayload::check_mic_and_decrypt_in_place(
        &mut b[..len], &nwk, if use_app { Some(&app) } else { None }, fcnt);
    let k: usize = kani::any();
    kani::assume(k < MAXF);
    match r {
        Err(e) => {
            kani::cover!(matches!(e, Error::InvalidMic), "InvalidMic");
            kani::cover!(matches!(e, Error::MissingKey), "MissingKey after valid MIC");
            assert!(b[k] == orig[k], "C02: failed checked decoding must leave the buffer untouched");
        }
        Ok(_) => {
            kani::cover!(len == 40, "accepted 40-byte frame");
        }
    }
}

// ---- independent structural decoder of a data frame (LoRaWAN 1.0.x 4.1 - 4.3) -------------------
/// Some((FOptsLen, has_port)) when `b[..len]` is a well-formed data frame
fn ref_data_layout(b: &[u8; MAXF], len: usize) -> Option<(usize, bool)> {
    if len < 12 {
        return None;
    }
    let mtype = b[0] >> 5;
    if b[0] & 3 != 0 || mtype < 2 || mtype > 5 {
        return None;
    }
    let fol = (b[5] & 0x0f) as usize;
    // MHDR(1) DevAddr(4) FCtrl(1) FCnt(2) FOpts(fol) [FPort(1) FRMPayload] MIC(4)
    if 8 + fol + 4 > len {
        return None;
    }
    Some((fol, 8 + fol + 4 < len))
}

//@h id=data_structure_matches_reference props=C02,C03 tier=quick build=enc cost=30 timeout=900
//@bounds every byte string of length 0..=255: EncryptedDataPayload::parse succeeds exactly on the well-formed data frames of an independent structural decoder, and every accessor (frame type, DevAddr, FCtrl bits, FCnt, FOpts bytes, FPort, MIC) returns the independent decoder's value; slices compared at one universally quantified index
//@encodes EncryptedDataPayload::parse, Layout::validate, DataFrameType::from_mhdr, Fhdr::{dev_addr, fctrl, fcnt, f_opts}, FCtrl accessors, f_port, mic
#[kani::proof]
#[kani::unwind(6)]
fn data_structure_matches_reference() {
    let (b, len) = any_bytes(255);
    let s = &b[..len];
    let r = ref_data_layout(&b, len);
    match EncryptedDataPayload::parse(s) {
        Err(_) => assert!(r.is_none(), "C02: a well-formed data frame must be decoded"),
        Ok(p) => {
            assert!(r.is_some(), "C02: a malformed data frame (length, MHDR, FOptsLen beyond the frame) must be rejected");
            let (fol, has_port) = r.unwrap();
            let mtype = b[0] >> 5;
            assert!(p.is_uplink() == (mtype == 2 || mtype == 4), "C02: direction from MType");
            assert!(p.is_confirmed() == (mtype == 4 || mtype == 5), "C02: confirmed from MType");
            assert!(matches!(p.frame_type(), DataFrameType::UnconfirmedUp) == (mtype == 2), "C02: frame type");
            let h = p.fhdr();
            assert!(h.dev_addr().value() == u32::from_le_bytes([b[1], b[2], b[3], b[4]]), "C02: DevAddr little-endian");
            assert!(h.fcnt() == u16::from_le_bytes([b[6], b[7]]), "C02: FCnt little-endian");
            let c = h.fctrl();
            assert!(c.raw_value() == b[5] && c.f_opts_len() == fol, "C02: FCtrl / FOptsLen");
            assert!(c.adr() == (b[5] & 0x80 != 0) && c.ack() == (b[5] & 0x20 != 0), "C02: ADR / ACK bits");
            let fo = h.f_opts();
            assert!(fo.len() == fol, "C02: FOpts length");
            let k: usize = kani::any();
            if k < fol {
                assert!(fo[k] == b[8 + k], "C02: FOpts bytes");
            }
            assert!(p.f_port() == if has_port { Some(b[8 + fol]) } else { None }, "C02: FPort present exactly when bytes remain between FHDR and MIC");
            let m = p.mic();
            assert!(m.0 == [b[len - 4], b[len - 3], b[len - 2], b[len - 1]], "C02: MIC is the last four bytes");
            kani::cover!(fol == 15 && !has_port, "15 FOpts bytes, no port");
            kani::cover!(len == 255 && has_port, "255-byte frame with payload");
        }
    }
}

//@h id=decrypt_key_counter_plaintext props=C02,C05 tier=quick build=enc cost=300 timeout=1800
//@bounds every byte string of length 0..=40, keys present or absent, any 32-bit counter: decrypt_in_place succeeds exactly on well-formed frames whose needed key is present; plaintext = ciphertext xor AES_k(A_i) with k by FPort (0: NwkSKey, else AppSKey), A_i built from the frame's direction, DevAddr and (fcnt high half | wire low half); header, port and MIC bytes untouched; no cipher call for an empty FRMPayload; FrmPayload variant and extent as the independent decoder says
//@encodes DecryptedDataPayload::decrypt_in_place, frm_payload, securityhelpers::encrypt_frm_data_payload, generate_helper_block
//@assumes AES is an uninterpreted function (calls logged, outputs arbitrary)
//@out frames longer than 40 bytes through this path (keystream kernel: keystream_len_* harnesses for every listed length up to 255)
#[kani::proof]
#[kani::unwind(42)]
fn decrypt_key_counter_plaintext() {
    let (mut b, len) = any_bytes(40);
    let orig = b;
    model::reset(0);
    unsafe { model::CONSISTENT.v = false; }
    let nwk_key = any_key();
    let app_key = any_key();
    let nwk = DefaultCrypto::new(&nwk_key);
    let app = DefaultCrypto::new(&app_key);
    let (use_nwk, use_app): (bool, bool) = (kani::any(), kani::any());
    let fcnt: u32 = kani::any();
    let lay = ref_data_layout(&orig, len);
    let r = DecryptedDataPayload::decrypt_in_place(&mut b[..len], if use_nwk { Some(&nwk) } else { None }, if use_app { Some(&app) } else { None }, fcnt);
    let k: usize = kani::any();
    kani::assume(k < MAXF);
    match lay {
        None => assert!(r.is_err(), "C02: a malformed data frame must be rejected"),
        Some((fol, has_port)) => {
            let start = 9 + fol; // first FRMPayload byte when a port is present
            let plen = if has_port { len - 4 - start } else { 0 };
            let port = if has_port { orig[8 + fol] } else { 0 };
            let by_app = has_port && port != 0;
            let key_there = if by_app { use_app } else { use_nwk };
            if plen > 0 && !key_there {
                assert!(matches!(r, Err(Error::MissingKey)), "C02: MissingKey exactly when the key the port selects is absent");
                drop(r);
                assert!(b[k] == orig[k], "C02: nothing written when the key is missing");
            } else {
                assert!(r.is_ok(), "C02: a well-formed frame with its key present must decrypt");
                let d = r.unwrap();
                match d.frm_payload() {
                    FrmPayload::None => assert!(!has_port, "C02: FrmPayload::None only without FPort"),
                    FrmPayload::MacCommands(x) => assert!(has_port && port == 0 && x.len() == plen, "C02: MAC commands on port 0, extent"),
                    FrmPayload::Data(x) => assert!(has_port && port != 0 && x.len() == plen, "C02: application data on port > 0, extent"),
                }
                drop(d);
                let nblocks = (plen + 15) / 16;
                unsafe {
                    assert!(model::MIC_N.v == 0, "C02: decrypt_in_place computes no MIC");
                    assert!(model::ENC_N.v == nblocks, "C02: one AES call per 16 payload bytes, none for an empty payload");
                    let dir = if (orig[0] >> 5) & 1 == 1 { 1 } else { 0 };
                    let full = (fcnt & 0xFFFF_0000) | (orig[6] as u32) | ((orig[7] as u32) << 8);
                    let j: usize = kani::any();
                    if j < nblocks {
                        let e = model::ENC.v[j];
                        let key = if by_app { model::pack(&app_key.0) } else { model::pack(&nwk_key.0) };
                        assert!(e.key == key && !e.decrypt, "C02: key selected by FPort, AES in encrypt direction");
                        assert!(e.input == ref_a(dir, [orig[1], orig[2], orig[3], orig[4]], full, (j + 1) as u8), "C02: A_i uses the frame's direction and DevAddr and the counter's high half from the caller, low half from the wire");
                        if k >= start && k < start + plen && (k - start) / 16 == j {
                            assert!(b[k] == orig[k] ^ model::byte(e.output, (k - start) % 16), "C02: plaintext = ciphertext xor keystream");
                        }
                    }
                }
                if k < start || k >= start + plen {
                    assert!(b[k] == orig[k], "C02: header, port and MIC bytes are not modified by decryption");
                }
                kani::cover!(plen == 27 && by_app, "27-byte application payload");
                kani::cover!(plen > 0 && !by_app, "MAC commands in FRMPayload");
            }
        }
    }
}

/// R1: frame length and FOptsLen concrete (they steer the keystream loop and the payload offset),
/// every byte symbolic.  With both symbolic the Ackermann constraints of the consistent crypto
/// model did not finish in 17 minutes.
fn decrypt_twice(len: usize, fol: u8) {
    let (mut b, _) = any_bytes(40);
    b[5] = (b[5] & 0xF0) | fol;
    let orig = b;
    model::reset(0);
    let nwk = DefaultCrypto::new(&any_key());
    let app = DefaultCrypto::new(&any_key());
    let fcnt: u32 = kani::any();
    let r1 = DecryptedDataPayload::decrypt_in_place(&mut b[..len], Some(&nwk), Some(&app), fcnt).is_ok();
    let r2 = DecryptedDataPayload::decrypt_in_place(&mut b[..len], Some(&nwk), Some(&app), fcnt).is_ok();
    assert!(r1 == r2, "C02: structure does not depend on the payload bytes");
    let k: usize = kani::any();
    kani::assume(k < MAXF);
    assert!(b[k] == orig[k], "C02: decrypting twice restores the ciphertext");
    kani::cover!(r1, "frame decrypted twice");
}
//@h id=decrypt_twice_restores_13 props=C02 tier=quick build=enc cost=30 timeout=900
//@bounds every 13-byte data frame without FOpts (FRMPayload empty, port only) x both keys x any counter: decrypt_in_place twice returns the received bytes (universally quantified index)
//@encodes DecryptedDataPayload::decrypt_in_place (twice), encrypt_frm_data_payload
//@assumes AES is an uninterpreted *function*: the same key and block give the same output (Ackermann constraints of the model)
#[kani::proof]
#[kani::unwind(42)]
fn decrypt_twice_restores_13() {
    decrypt_twice(13, 0);
}
//@h id=decrypt_twice_restores_30 props=C02 tier=quick build=enc cost=60 timeout=900
//@bounds every 30-byte data frame without FOpts (17 payload bytes, two keystream blocks)
//@assumes AES is an uninterpreted function
#[kani::proof]
#[kani::unwind(42)]
fn decrypt_twice_restores_30() {
    decrypt_twice(30, 0);
}
//@h id=decrypt_twice_restores_40_fopts15 props=C02 tier=quick build=enc cost=60 timeout=900
//@bounds every 40-byte data frame with 15 FOpts bytes (12 payload bytes)
//@assumes AES is an uninterpreted function
#[kani::proof]
#[kani::unwind(42)]
fn decrypt_twice_restores_40_fopts15() {
    decrypt_twice(40, 15);
}

//@h id=join_accept_decode props=C02 tier=thorough build=enc cost=400 timeout=2400
//@bounds every byte string of length 0..=40 and every key: check_mic_and_decrypt_in_place accepts exactly the 17/33-byte JoinAccepts (MHDR type 1, major 0) whose MIC = CMAC_key(MHDR | decrypted[..len-4]) where decrypted = AES-encrypt_key of each 16-byte block after the MHDR; every accessor returns the independent decode of the decrypted bytes; CFList by type (0: five frequencies, 1: mask, else none)
//@encodes DecryptedJoinAcceptPayload::{check_mic_and_decrypt_in_place, decrypt_in_place, validate_mic, join_nonce, net_id, dev_addr, dl_settings, rx_delay, c_f_list}, validate_join_accept_structure, securityhelpers::calculate_mic
//@assumes AES/CMAC are uninterpreted functions
#[kani::proof]
#[kani::unwind(42)]
fn join_accept_decode() {
    join_accept_decode_len(kani::any());
}
//@h id=join_accept_decode_17 props=C02 tier=quick build=enc cost=30 timeout=900
//@bounds as join_accept_decode with the length fixed to 17 bytes (no CFList)
//@assumes AES/CMAC are uninterpreted functions
#[kani::proof]
#[kani::unwind(42)]
fn join_accept_decode_17() {
    join_accept_decode_len(17);
}
//@h id=join_accept_decode_33 props=C02 tier=quick build=enc cost=60 timeout=900
//@bounds as join_accept_decode with the length fixed to 33 bytes (CFList of every type)
//@assumes AES/CMAC are uninterpreted functions
#[kani::proof]
#[kani::unwind(42)]
fn join_accept_decode_33() {
    join_accept_decode_len(33);
}
fn join_accept_decode_len(want: usize) {
    // R1: `want` is a constant in the quick-tier instances, so every loop bound is concrete
    let (mut b, _) = any_bytes(40);
    let len = want;
    kani::assume(len <= 40);
    let orig = b;
    let probe: usize = kani::any();
    model::reset(probe);
    unsafe { model::CONSISTENT.v = false; }
    let key = any_key();
    let c = DefaultCrypto::new(&key);
    let wf = (len == 17 || len == 33) && orig[0] >> 5 == 1 && orig[0] & 3 == 0;
    let r = DecryptedJoinAcceptPayload::check_mic_and_decrypt_in_place(&mut b[..len], &c);
    if !wf {
        assert!(r.is_err(), "C02: a malformed JoinAccept must be rejected");
        drop(r);
        let k: usize = kani::any();
        kani::assume(k < MAXF);
        assert!(b[k] == orig[k], "C02: a structurally rejected JoinAccept is not written to");
        return;
    }
    let ok = r.is_ok();
    // views of the decrypted buffer through the accessors (only on success)
    if let Ok(d) = &r {
        let x = d.as_bytes();
        assert!(d.join_nonce().value() == u32::from_le_bytes([x[1], x[2], x[3], 0]), "C02: JoinNonce");
        assert!(d.net_id().value() == u32::from_le_bytes([x[4], x[5], x[6], 0]), "C02: NetID");
        assert!(d.dev_addr().value() == u32::from_le_bytes([x[7], x[8], x[9], x[10]]), "C02: DevAddr");
        assert!(d.dl_settings().raw_value() == x[11], "C02: DLSettings");
        assert!(d.rx_delay() == x[12] & 0x0f, "C02: RxDelay");
        match d.c_f_list() {
            None => assert!(len == 17 || x[28] > 1, "C02: CFList absent or RFU type"),
            Some(CfList::DynamicChannel(f)) => {
                assert!(len == 33 && x[28] == 0, "C02: CFList type 0");
                let i: usize = kani::any();
                kani::assume(i < 5);
                assert!(f[i].hz() == u32::from_le_bytes([x[13 + 3 * i], x[14 + 3 * i], x[15 + 3 * i], 0]) * 100, "C02: CFList frequency i (24-bit little-endian, 100 Hz units)");
            }
            Some(CfList::FixedChannel(m)) => {
                assert!(len == 33 && x[28] == 1, "C02: CFList type 1");
                let i: usize = kani::any();
                kani::assume(i < 72);
                assert!(m.is_enabled(i).unwrap() == (x[13 + i / 8] >> (i % 8) & 1 == 1), "C02: CFList mask bit i");
            }
        }
    }
    drop(r);
    unsafe {
        let nb = (len - 1) / 16;
        assert!(model::ENC_N.v == nb && model::MIC_N.v == 1, "C02: one AES call per block, one CMAC");
        let j: usize = kani::any();
        if j < nb {
            let e = model::ENC.v[j];
            assert!(e.key == model::pack(&key.0) && !e.decrypt, "C02: JoinAccept is inverted with AES-encrypt under the given key");
            assert!(e.input == model::pack(&orig[1 + 16 * j..17 + 16 * j]), "C02: block j of the received frame");
            let t: usize = kani::any();
            kani::assume(t < 16);
            assert!(b[1 + 16 * j + t] == model::byte(e.output, t), "C02: decrypted block j");
        }
        assert!(b[0] == orig[0], "C02: MHDR is not encrypted");
        let m = &model::MICS.v[0];
        assert!(m.key == model::pack(&key.0) && m.b0_len == 0 && m.len == len - 4, "C02: MIC = CMAC(key, MHDR | decrypted payload without MIC)");
        if probe < len - 4 {
            assert!(m.probe == b[probe], "C02: MIC message is the decrypted frame");
        }
        let eq = m.out[0] == b[len - 4] && m.out[1] == b[len - 3] && m.out[2] == b[len - 2] && m.out[3] == b[len - 1];
        assert!(ok == eq, "C02: JoinAccept authentic exactly when the computed MIC equals the decrypted MIC field");
    }
    kani::cover!(ok && len == want, "authentic JoinAccept of the chosen length");
    kani::cover!(!ok, "rejected JoinAccept");
}
