//@file anchor=lorawan-encoding/src/parser.rs
// C02: authentication and decoding of received frames.
use super::*;
use crate::default_crypto::{model, DefaultCrypto};
#[path = "common.rs"]
mod common;
use common::*;

//@h id=validate_mic_iff props=C02,C05 tier=quick build=enc cost=30 timeout=600
//@bounds every byte string of length 0..=255 x every 32-bit counter x every key: validate_mic is true iff the single CMAC call is made over B0(dir from MHDR bit 5, DevAddr, full 32-bit counter, len-4) | frame[..len-4] under the given key and its 4-byte result equals the trailing MIC
//@encodes EncryptedDataPayload::parse, EncryptedDataPayload::validate_mic, securityhelpers::calculate_data_mic, generate_helper_block
//@assumes AES-CMAC is an uninterpreted function of (key, B0, message); message bytes compared at one universally quantified index
#[kani::proof]
#[kani::unwind(6)]
fn validate_mic_iff() {
    let (b, len) = any_bytes(255);
    let probe: usize = kani::any();
    model::reset(probe);
    let key = any_key();
    let c = DefaultCrypto::new(&key);
    let fcnt: u32 = kani::any();
    let s = &b[..len];
    if let Ok(p) = EncryptedDataPayload::parse(s) {
        let ok = p.validate_mic(&c, fcnt);
        unsafe {
            assert!(model::MIC_N == 1, "C02: exactly one CMAC computation");
            assert!(model::ENC_N == 0, "C02: MIC validation must not run the block cipher directly");
            let m = &model::MICS[0];
            assert!(m.key == model::pack(&key.0), "C02: MIC under the given key");
            assert!(m.b0_len == 16, "C02: B0 is one block");
            let dir = if (b[0] >> 5) & 1 == 1 { 1 } else { 0 };
            assert!(m.b0 == ref_b0(dir, [b[1], b[2], b[3], b[4]], fcnt, len - 4), "C02: B0 contents");
            assert!(m.len == len - 4, "C02: MIC covers MHDR..FRMPayload");
            if probe < len - 4 {
                assert!(m.probe == b[probe], "C02: MIC message bytes are the frame bytes");
            }
            let eq = m.out[0] == b[len - 4] && m.out[1] == b[len - 3] && m.out[2] == b[len - 2] && m.out[3] == b[len - 1];
            assert!(ok == eq, "C02: authentic exactly when the computed MIC equals the frame's MIC");
            kani::cover!(ok && len == 255, "valid MIC on a 255-byte frame");
            kani::cover!(!ok, "invalid MIC");
        }
    }
}

//@h id=failed_check_leaves_buffer props=C02 tier=quick build=enc cost=60 timeout=900
//@bounds every byte string of length 0..=40, any keys (app key present or absent), any counter: Err from check_mic_and_decrypt_in_place => buffer byte-identical (compared at a universally quantified index)
//@encodes DecryptedDataPayload::check_mic_and_decrypt_in_place, decrypt_in_place, validate_mic
//@out frames longer than 40 bytes on this path
#[kani::proof]
#[kani::unwind(42)]
fn failed_check_leaves_buffer() {
    let (mut b, len) = any_bytes(40);
    let orig = b;
    model::reset(0);
    unsafe { model::CONSISTENT = false; }
    let nwk = DefaultCrypto::new(&any_key());
    let app = DefaultCrypto::new(&any_key());
    let use_app: bool = kani::any();
    let fcnt: u32 = kani::any();
    let r = DecryptedDataPayload::check_mic_and_decrypt_in_place(
        &mut b[..len], &nwk, if use_app { Some(&app) } else { None }, fcnt);
    let k: usize = kani::any();
    kani::assume(k < MAXF);
    match r {
        Err(e) => {
            kani::cover!(matches!(e, Error::InvalidMic), "InvalidMic");
            kani::cover!(matches!(e, Error::MissingKey), "MissingKey after valid MIC");
            assert!(b[k] == orig[k], "C02: failed checked decoding must leave the buffer untouched");
        }
        Ok(_) => {
            kani::cover!(len == 40, "accepted 40-byte frame");
        }
    }
}
