//@file anchor=lorawan-encoding/src/creator.rs
// C01: frames built by DataFrame / JoinRequest / JoinAccept are byte-exact LoRaWAN 1.0.x.
use super::*;
use crate::default_crypto::{model, DefaultCrypto, DefaultNetworkCrypto};
#[path = "common.rs"]
mod common;
use common::*;

const MAXP: usize = 33; // three keystream blocks
const MAXO: usize = 16; // FOpts 0..=16 (16 must be refused)
const BUFN: usize = 64;

fn any_ft() -> DataFrameType {
    let i: u8 = kani::any();
    kani::assume(i < 4);
    match i {
        0 => DataFrameType::UnconfirmedUp,
        1 => DataFrameType::UnconfirmedDown,
        2 => DataFrameType::ConfirmedUp,
        _ => DataFrameType::ConfirmedDown,
    }
}

/// kind: 0 = no FRMPayload, 1 = application data on port 1..=255, 2 = MAC commands on port 0
fn data_frame_exact(kind: u8) {
    let probe: usize = kani::any();
    model::reset(probe);
    unsafe { model::CONSISTENT.v = false; }
    let ft = any_ft();
    let uplink = matches!(ft, DataFrameType::UnconfirmedUp | DataFrameType::ConfirmedUp);
    let addr: u32 = kani::any();
    let fcnt: u32 = kani::any();
    let (adr, adr_ack_req, ack, f_pending): (bool, bool, bool, bool) = (kani::any(), kani::any(), kani::any(), kani::any());
    let fopts: [u8; MAXO] = kani::any();
    let fol: usize = kani::any();
    kani::assume(fol <= MAXO);
    let data: [u8; MAXP] = kani::any();
    let plen: usize = if kind == 0 { 0 } else { kani::any() };
    kani::assume(plen <= MAXP);
    let port: u8 = kani::any();
    kani::assume(port != 0);
    let nwk_key = any_key();
    let app_key = any_key();
    let nwk = DefaultCrypto::new(&nwk_key);
    let app = DefaultCrypto::new(&app_key);
    let have_app: bool = kani::any();
    let blen: usize = kani::any();
    kani::assume(blen <= BUFN);
    // arbitrary prior buffer contents: a reused buffer must not leak into the frame
    let mut buf: [u8; BUFN] = kani::any();
    let frame = DataFrame {
        frame_type: ft,
        dev_addr: DevAddr::from_value(addr),
        adr,
        adr_ack_req,
        ack,
        f_pending,
        fcnt,
        f_opts: &fopts[..fol],
        payload: match kind {
            0 => Payload::None,
            1 => Payload::Data { f_port: NonZeroU8::new(port).unwrap(), data: &data[..plen] },
            _ => Payload::MacCommands(&data[..plen]),
        },
    };
    let total = 1 + 7 + fol + (if kind == 0 { 0 } else { 1 }) + plen + 4;
    let must_refuse = fol > 15 || (kind == 2 && fol != 0) || (kind == 1 && !have_app) || blen < total;
    let res = frame.build_into(&mut buf[..blen], &nwk, if have_app { Some(&app) } else { None });
    match res {
        Err(_) => {
            assert!(must_refuse, "C01: a frame description the specification allows must be built");
            kani::cover!(fol == 16, "FOpts of 16 bytes refused");
            kani::cover!(kind != 1 || !have_app, "missing key refused");
        }
        Ok(out) => {
            assert!(!must_refuse, "C01: forbidden frame descriptions (FOpts > 15, FOpts with port 0, missing key, short buffer) must be refused");
            assert!(out.len() == total, "C01: frame length");
            let mhdr = match ft {
                DataFrameType::UnconfirmedUp => 0x40,
                DataFrameType::UnconfirmedDown => 0x60,
                DataFrameType::ConfirmedUp => 0x80,
                DataFrameType::ConfirmedDown => 0xA0,
            };
            assert!(out[0] == mhdr, "C01: MHDR");
            let a = [addr as u8, (addr >> 8) as u8, (addr >> 16) as u8, (addr >> 24) as u8];
            assert!(out[1] == a[0] && out[2] == a[1] && out[3] == a[2] && out[4] == a[3], "C01: DevAddr little-endian");
            let fctrl = (if adr { 0x80 } else { 0 })
                | (if adr_ack_req && uplink { 0x40 } else { 0 })
                | (if ack { 0x20 } else { 0 })
                | (if f_pending && !uplink { 0x10 } else { 0 })
                | fol as u8;
            assert!(out[5] == fctrl, "C01: FCtrl bits per direction and FOptsLen");
            assert!(out[6] == fcnt as u8 && out[7] == (fcnt >> 8) as u8, "C01: FCnt low 16 bits little-endian");
            let k: usize = kani::any();
            if k < fol {
                assert!(out[8 + k] == fopts[k], "C01: FOpts bytes");
            }
            let dir = if uplink { 0 } else { 1 };
            let nblocks = (plen + 15) / 16;
            unsafe {
                if kind != 0 {
                    assert!(out[8 + fol] == if kind == 1 { port } else { 0 }, "C01: FPort");
                }
                assert!(model::ENC_N.v == nblocks, "C01: one AES block per 16 payload bytes");
                let j: usize = kani::any();
                if j < nblocks {
                    let e = model::ENC.v[j];
                    let key = if kind == 1 { model::pack(&app_key.0) } else { model::pack(&nwk_key.0) };
                    assert!(e.key == key && !e.decrypt, "C01: FRMPayload key selected by FPort (0: NwkSKey, else AppSKey)");
                    assert!(e.input == ref_a(dir, a, fcnt, (j + 1) as u8), "C01: block A_i = 01|0^4|dir|DevAddr|FCnt32|00|i");
                    let m: usize = kani::any();
                    if m < plen && m / 16 == j {
                        assert!(out[9 + fol + m] == data[m] ^ model::byte(e.output, m % 16), "C01: ciphertext = plaintext xor AES(A_i)");
                    }
                }
                assert!(model::MIC_N.v == 1, "C01: one CMAC computation");
                let mm = &model::MICS.v[0];
                assert!(mm.key == model::pack(&nwk_key.0), "C01: MIC under NwkSKey");
                assert!(mm.b0_len == 16 && mm.b0 == ref_b0(dir, a, fcnt, total - 4), "C01: block B0 = 49|0^4|dir|DevAddr|FCnt32|00|len with the full 32-bit counter");
                assert!(mm.len == total - 4, "C01: MIC over MHDR..FRMPayload");
                if probe < total - 4 {
                    assert!(mm.probe == out[probe], "C01: MIC message is the frame");
                }
                assert!(out[total - 4] == mm.out[0] && out[total - 3] == mm.out[1] && out[total - 2] == mm.out[2] && out[total - 1] == mm.out[3], "C01: MIC = first four CMAC bytes");
            }
            kani::cover!(kind == 0 || plen == MAXP, "33-byte payload (three keystream blocks)");
            kani::cover!(kind == 2 || fol == 15, "15 bytes of FOpts");
        }
    }
}

//@h id=data_frame_exact_none props=C01 tier=quick build=enc cost=60 timeout=1200
//@bounds all 4 frame types x all flag combinations x FOpts length 0..=16 (symbolic content) x no FRMPayload x any address, 32-bit counter, keys x output buffer 0..=64 bytes
//@encodes DataFrame::build_into, DataFrame::mhdr, DataFrame::fctrl, securityhelpers::calculate_data_mic, generate_helper_block
//@assumes AES/CMAC are uninterpreted functions (which calls are made with which blocks, and how their outputs appear in the frame)
#[kani::proof]
#[kani::unwind(36)]
fn data_frame_exact_none() {
    data_frame_exact(0);
}
//@h id=data_frame_exact_data props=C01 tier=quick build=enc cost=200 timeout=1800
//@bounds as above with application data: FPort 1..=255, payload length 0..=33 (three keystream blocks), app key present or absent
//@encodes DataFrame::build_into, securityhelpers::encrypt_frm_data_payload
//@assumes AES/CMAC are uninterpreted functions
//@out payloads longer than 33 bytes through build_into (the keystream kernel is covered for every listed length up to 255 by keystream_len_* harnesses)
#[kani::proof]
#[kani::unwind(36)]
fn data_frame_exact_data() {
    data_frame_exact(1);
}
//@h id=data_frame_exact_mac props=C01 tier=quick build=enc cost=200 timeout=1800
//@bounds as above with MAC commands on port 0: payload length 0..=33, FOpts length 0..=16 (non-empty FOpts must be refused)
//@assumes AES/CMAC are uninterpreted functions
#[kani::proof]
#[kani::unwind(36)]
fn data_frame_exact_mac() {
    data_frame_exact(2);
}

//@h id=join_request_build_exact props=C01 tier=quick build=enc cost=20 timeout=600
//@bounds all JoinEUI / DevEUI / DevNonce values, any key, output buffer 0..=40 bytes
//@encodes JoinRequest::build_into, write_mic, securityhelpers::calculate_mic
#[kani::proof]
#[kani::unwind(26)]
fn join_request_build_exact() {
    let probe: usize = kani::any();
    model::reset(probe);
    let je: u64 = kani::any();
    let de: u64 = kani::any();
    let dn: u16 = kani::any();
    let key = any_key();
    let c = DefaultCrypto::new(&key);
    let blen: usize = kani::any();
    kani::assume(blen <= 40);
    // arbitrary prior buffer contents: a reused buffer must not leak into the frame
    let mut buf: [u8; 40] = kani::any();
    let jr = JoinRequest { join_eui: JoinEui::from_value(je), dev_eui: DevEui::from_value(de), dev_nonce: DevNonce::from_value(dn) };
    match jr.build_into(&mut buf[..blen], &c) {
        Err(_) => assert!(blen < 23, "C01: JoinRequest fits 23 bytes"),
        Ok(out) => {
            assert!(blen >= 23 && out.len() == 23 && out[0] == 0x00, "C01: JoinRequest length and MHDR");
            let k: usize = kani::any();
            kani::assume(k < 8);
            assert!(out[1 + k] == (je >> (8 * k)) as u8, "C01: JoinEUI little-endian");
            assert!(out[9 + k] == (de >> (8 * k)) as u8, "C01: DevEUI little-endian");
            assert!(out[17] == dn as u8 && out[18] == (dn >> 8) as u8, "C01: DevNonce little-endian");
            unsafe {
                assert!(model::MIC_N.v == 1 && model::ENC_N.v == 0, "C01: one CMAC");
                let m = &model::MICS.v[0];
                assert!(m.key == model::pack(&key.0) && m.b0_len == 0 && m.len == 19, "C01: MIC = CMAC(AppKey, MHDR|JoinEUI|DevEUI|DevNonce)");
                if probe < 19 {
                    assert!(m.probe == out[probe], "C01: MIC message is the frame");
                }
                assert!(out[19] == m.out[0] && out[20] == m.out[1] && out[21] == m.out[2] && out[22] == m.out[3], "C01: MIC placed");
            }
        }
    }
}

/// cf: 0 = no CFList, 1 = type 0 (five frequencies), 2 = type 1 (channel mask)
fn join_accept_exact(cf: u8) {
    let probe: usize = kani::any();
    model::reset(probe);
    unsafe { model::CONSISTENT.v = false; }
    let jn: u32 = kani::any();
    let nid: u32 = kani::any();
    let addr: u32 = kani::any();
    let dls: u8 = kani::any();
    let rxd: u8 = kani::any();
    let freqs: [[u8; 3]; 5] = kani::any();
    let mask: [u8; 9] = kani::any();
    let key = any_key();
    let c = DefaultNetworkCrypto::new(&key);
    let blen: usize = kani::any();
    kani::assume(blen <= 40);
    // arbitrary prior buffer contents: a reused buffer must not leak into the frame
    let mut buf: [u8; 40] = kani::any();
    let ja = JoinAccept {
        join_nonce: JoinNonce::from_value(jn),
        net_id: NetId::from_value(nid),
        dev_addr: DevAddr::from_value(addr),
        dl_settings: DLSettings::new(dls),
        rx_delay: rxd,
        c_f_list: match cf {
            0 => None,
            1 => Some(CfList::DynamicChannel([
                crate::parser::Frequency::from_wire_bytes(freqs[0]),
                crate::parser::Frequency::from_wire_bytes(freqs[1]),
                crate::parser::Frequency::from_wire_bytes(freqs[2]),
                crate::parser::Frequency::from_wire_bytes(freqs[3]),
                crate::parser::Frequency::from_wire_bytes(freqs[4]),
            ])),
            _ => Some(CfList::FixedChannel(crate::types::ChannelMask::from(mask))),
        },
    };
    let len = if cf == 0 { 17 } else { 33 };
    match ja.build_into(&mut buf[..blen], &c) {
        Err(_) => assert!(blen < len, "C01: JoinAccept fits its length"),
        Ok(out) => {
            assert!(blen >= len && out.len() == len, "C01: JoinAccept length 17 / 33");
            // clear text as the specification lays it out
            let mut clear = [0u8; 33];
            clear[0] = 0x20;
            clear[1] = jn as u8; clear[2] = (jn >> 8) as u8; clear[3] = (jn >> 16) as u8;
            clear[4] = nid as u8; clear[5] = (nid >> 8) as u8; clear[6] = (nid >> 16) as u8;
            clear[7] = addr as u8; clear[8] = (addr >> 8) as u8; clear[9] = (addr >> 16) as u8; clear[10] = (addr >> 24) as u8;
            clear[11] = dls;
            clear[12] = rxd & 0x0f;
            if cf == 1 {
                let mut i = 0;
                while i < 5 {
                    clear[13 + 3 * i] = freqs[i][0];
                    clear[14 + 3 * i] = freqs[i][1];
                    clear[15 + 3 * i] = freqs[i][2];
                    i += 1;
                }
                clear[28] = 0;
            } else if cf == 2 {
                let mut i = 0;
                while i < 9 {
                    clear[13 + i] = mask[i];
                    i += 1;
                }
                clear[28] = 1;
            }
            unsafe {
                assert!(model::MIC_N.v == 1, "C01: one CMAC");
                let m = &model::MICS.v[0];
                assert!(m.key == model::pack(&key.0) && m.b0_len == 0 && m.len == len - 4, "C01: MIC = CMAC(AppKey, MHDR|payload) over the clear frame");
                if probe < len - 4 {
                    assert!(m.probe == clear[probe], "C01: clear JoinAccept layout (little-endian fields, RxDelay & 0x0f, CFList and its type)");
                }
                clear[len - 4] = m.out[0]; clear[len - 3] = m.out[1]; clear[len - 2] = m.out[2]; clear[len - 1] = m.out[3];
                let nb = (len - 1) / 16;
                assert!(model::ENC_N.v == nb, "C01: one AES-decrypt call per 16-byte block");
                assert!(out[0] == 0x20, "C01: MHDR stays in clear");
                let j: usize = kani::any();
                kani::assume(j < nb);
                let e = model::ENC.v[j];
                assert!(e.decrypt && e.key == model::pack(&key.0), "C01: JoinAccept is wrapped with the AES *decrypt* primitive under the AppKey");
                assert!(e.input == model::pack(&clear[1 + 16 * j..17 + 16 * j]), "C01: wrapped blocks are the clear payload including the MIC");
                let k: usize = kani::any();
                kani::assume(k < 16);
                assert!(out[1 + 16 * j + k] == model::byte(e.output, k), "C01: wire bytes are the AES-decrypt outputs");
            }
        }
    }
}
//@h id=join_accept_exact_plain props=C01 tier=quick build=enc cost=30 timeout=900
//@bounds JoinAccept without CFList: all JoinNonce/NetID/DevAddr/DLSettings/RxDelay values, any key, buffer 0..=40
//@encodes JoinAccept::build_into, write_mic
#[kani::proof]
#[kani::unwind(20)]
fn join_accept_exact_plain() {
    join_accept_exact(0);
}
//@h id=join_accept_exact_cflist0 props=C01 tier=quick build=enc cost=40 timeout=900
//@bounds JoinAccept with CFList type 0 (five arbitrary frequencies)
#[kani::proof]
#[kani::unwind(20)]
fn join_accept_exact_cflist0() {
    join_accept_exact(1);
}
//@h id=join_accept_exact_cflist1 props=C01 tier=quick build=enc cost=40 timeout=900
//@bounds JoinAccept with CFList type 1 (arbitrary 72-bit mask)
#[kani::proof]
#[kani::unwind(20)]
fn join_accept_exact_cflist1() {
    join_accept_exact(2);
}
