//@file anchor=lorawan-encoding/src/multicast/mod.rs
// C19 for the multicast remote-setup (TS005) and certification (TS009) command sets: builder ->
// parser round trips with every field symbolic; out-of-range values are refused or truncated to
// the field, never panic and never disturb neighbouring fields.
use super::*;
use crate::certification::{
    parse_uplink_dut_commands, DutVersionsAnsCreator, EchoIncPayloadAnsCreator, RxAppCntAnsCreator, UplinkDUTCommand,
};
use crate::parser::McAddr;

fn one_up(b: &[u8]) -> UplinkRemoteSetup<'_> {
    let mut it = parse_uplink_multicast_commands(b);
    match it.next() {
        Some(Ok(c)) => {
            assert!(it.next().is_none(), "C19: a built command parses back consuming exactly its bytes");
            c
        }
        _ => {
            assert!(false, "C19: a built multicast-setup command must parse");
            unreachable!()
        }
    }
}
fn one_down(b: &[u8]) -> DownlinkRemoteSetup<'_> {
    let mut it = parse_downlink_multicast_commands(b);
    match it.next() {
        Some(Ok(c)) => {
            assert!(it.next().is_none(), "C19: a built command parses back consuming exactly its bytes");
            c
        }
        _ => {
            assert!(false, "C19: a built multicast-setup command must parse");
            unreachable!()
        }
    }
}

//@h id=rt_mc_fixed_cmds props=C19 tier=quick build=enc cost=20 timeout=600
//@bounds multicast remote-setup commands with fixed length, every field value: PackageVersionAns (identifier, version), McGroupSetupAns / McGroupDeleteAns (2-bit group id from any u8, undefined flag), McGroupStatusReq (4-bit mask from any u8), McGroupDeleteReq, McGroupSetupReq (group id, address, min/max counter)
//@encodes PackageVersionAnsCreator, McGroupSetupAnsCreator, McGroupDeleteAnsCreator, McGroupStatusReqCreator, McGroupDeleteReqCreator, McGroupSetupReqCreator and the matching payload accessors
#[kani::proof]
#[kani::unwind(34)]
fn rt_mc_fixed_cmds() {
    let (a, b): (u8, u8) = (kani::any(), kani::any());
    let mut c = PackageVersionAnsCreator::new();
    c.package_identifier(a).package_version(b);
    match one_up(c.build()) {
        UplinkRemoteSetup::PackageVersionAns(p) => assert!(p.package_identifier() == a && p.package_version() == b, "C19: PackageVersionAns fields"),
        _ => assert!(false, "C19: PackageVersionAns parses as itself"),
    }
    let mut c = McGroupSetupAnsCreator::new();
    c.mc_group_id_header(a);
    match one_up(c.build()) {
        UplinkRemoteSetup::McGroupSetupAns(p) => assert!(p.mc_group_id_header() == a & 3 && c.build()[1] & 0xFC == 0, "C19: McGroupSetupAns group id truncated to 2 bits, RFU bits clear"),
        _ => assert!(false, "C19: McGroupSetupAns parses as itself"),
    }
    let und: bool = kani::any();
    let mut c = McGroupDeleteAnsCreator::new();
    c.mc_group_undefined(und).mc_group_id_header(a);
    match one_up(c.build()) {
        UplinkRemoteSetup::McGroupDeleteAns(p) => assert!(p.mc_group_id_header() == a & 3 && p.mc_group_undefined() == und && c.build()[1] & 0xF8 == 0, "C19: McGroupDeleteAns fields do not disturb each other"),
        _ => assert!(false, "C19: McGroupDeleteAns parses as itself"),
    }
    let mut c = McGroupStatusReqCreator::new();
    c.req_group_mask(a);
    match one_down(c.build()) {
        DownlinkRemoteSetup::McGroupStatusReq(p) => assert!(p.req_group_mask() == a & 15 && c.build()[1] & 0xF0 == 0, "C19: McGroupStatusReq mask truncated to 4 bits"),
        _ => assert!(false, "C19: McGroupStatusReq parses as itself"),
    }
    let mut c = McGroupDeleteReqCreator::new();
    c.mc_group_id_header(a);
    match one_down(c.build()) {
        DownlinkRemoteSetup::McGroupDeleteReq(p) => assert!(p.mc_group_id_header() == a & 3 && c.build()[1] & 0xFC == 0, "C19: McGroupDeleteReq group id truncated to 2 bits"),
        _ => assert!(false, "C19: McGroupDeleteReq parses as itself"),
    }
    let addr: [u8; 4] = kani::any();
    let (lo, hi): (u32, u32) = (kani::any(), kani::any());
    let mut c = McGroupSetupReqCreator::new();
    c.mc_group_id_header(a & 3).mc_addr(&McAddr::from_wire_bytes(addr)).min_mc_fcount(lo).max_mc_fcount(hi);
    match one_down(c.build()) {
        DownlinkRemoteSetup::McGroupSetupReq(p) => {
            assert!(p.mc_group_id_header() == a & 3, "C19: McGroupSetupReq group id");
            assert!(p.mc_addr().as_wire_bytes() == &addr, "C19: McGroupSetupReq address");
            assert!(p.min_mc_fcount() == lo && p.max_mc_fcount() == hi, "C19: McGroupSetupReq counters do not disturb each other");
        }
        _ => assert!(false, "C19: McGroupSetupReq parses as itself"),
    }
}

//@h id=rt_mc_group_status_ans props=C19 tier=quick build=enc cost=60 timeout=900
//@bounds McGroupStatusAns with 0..=4 reported groups (count concrete per instance), any NbTotalGroups, any distinct admissible group ids 0..=3 in any order, any addresses, NbTotalGroups set at any position among the pushes (and optionally again at the end): the parsed command reports the mask, the total and every item that was pushed
//@encodes McGroupStatusAnsCreator::{new, nb_total_groups, push, build, len}, McGroupStatusAnsPayload::{new, required_len, ans_group_mask, nb_total_groups, item_iterator}
#[kani::proof]
#[kani::unwind(8)]
fn rt_mc_group_status_ans() {
    let k: usize = kani::any();
    kani::assume(k <= 4);
    let ids: [u8; 4] = kani::any();
    let addrs: [[u8; 4]; 4] = kani::any();
    let total: u8 = kani::any();
    // admissible: ids 0..=3, pairwise distinct
    kani::assume(ids[0] < 4 && ids[1] < 4 && ids[2] < 4 && ids[3] < 4);
    kani::assume(ids[0] != ids[1] && ids[0] != ids[2] && ids[0] != ids[3] && ids[1] != ids[2] && ids[1] != ids[3] && ids[2] != ids[3]);
    let mut c = McGroupStatusAnsCreator::new();
    // the setters commute: NbTotalGroups may be set before, between or after the pushes (the
    // device sets it last), and may be set more than once
    let at: usize = kani::any();
    kani::assume(at <= 4);
    let mut mask = 0u8;
    let mut i = 0;
    while i < 4 {
        if i == at {
            c.nb_total_groups(total);
        }
        if i < k {
            assert!(c.push(ids[i], McAddr::from_wire_bytes(addrs[i])).is_ok(), "C19: an admissible group is accepted");
            mask |= 1 << ids[i];
        }
        i += 1;
    }
    if at == 4 || kani::any() {
        c.nb_total_groups(total);
    }
    let bytes = c.build();
    assert!(bytes.len() == 2 + 5 * k, "C19: McGroupStatusAns length");
    match one_up(bytes) {
        UplinkRemoteSetup::McGroupStatusAns(p) => {
            assert!(p.ans_group_mask() == mask, "C19: AnsGroupMask lists exactly the pushed groups");
            assert!(p.nb_total_groups() == total & 7, "C19: NbTotalGroups truncated to 3 bits and not disturbed by the group mask");
            let mut it = p.item_iterator();
            let mut j = 0;
            while j < 4 {
                if j < k {
                    match it.next() {
                        Some(item) => assert!(item.mc_group_id() == ids[j] && item.mc_addr().as_wire_bytes() == &addrs[j], "C19: item j is the j-th pushed group"),
                        None => assert!(false, "C19: every pushed item is reported"),
                    }
                }
                j += 1;
            }
            assert!(it.next().is_none(), "C19: no item beyond the pushed ones");
        }
        _ => assert!(false, "C19: McGroupStatusAns parses as itself"),
    }
    kani::cover!(k == 4, "four groups reported");
}

//@h id=mc_group_status_ans_out_of_range props=C19 tier=quick build=enc cost=30 timeout=900
//@bounds McGroupStatusAnsCreator::push with any u8 group id and up to five pushes: an inadmissible push (id >= 4, or a fifth item) is refused with an error or truncated to the field; it never panics, never changes NbTotalGroups and never makes the built length exceed the buffer
//@encodes McGroupStatusAnsCreator::push, build, len
#[kani::proof]
#[kani::unwind(8)]
fn mc_group_status_ans_out_of_range() {
    let total: u8 = kani::any();
    let mut c = McGroupStatusAnsCreator::new();
    c.nb_total_groups(total);
    let n: usize = kani::any();
    kani::assume(n <= 5);
    let mut i = 0;
    while i < 5 {
        if i < n {
            let id: u8 = kani::any();
            let r = c.push(id, McAddr::from_wire_bytes(kani::any())).is_ok();
            assert!(c.build()[1] >> 4 == total & 7, "C19: a group id must not spill into NbTotalGroups / the RFU bit");
            if id >= 4 || i >= 4 {
                let _ = r; // refused or truncated, both are admissible
            }
        }
        i += 1;
    }
    assert!(c.build().len() <= 22, "C19: the built command never exceeds its buffer");
    kani::cover!(n == 5, "five pushes");
}

//@h id=rt_dut_uplink_cmds props=C19 tier=quick build=enc cost=60 timeout=900
//@bounds certification (TS009) uplink commands: DutVersionsAns (12 raw bytes), RxAppCntAns (every u16), EchoIncPayloadAns (payload of 1..=16 bytes, every byte incremented by one)
//@encodes DutVersionsAnsCreator, RxAppCntAnsCreator, EchoIncPayloadAnsCreator, UplinkDUTCommand::parse_one
#[kani::proof]
#[kani::unwind(20)]
fn rt_dut_uplink_cmds() {
    let raw: [u8; 12] = kani::any();
    let mut c = DutVersionsAnsCreator::new();
    c.set_versions_raw(raw);
    match parse_uplink_dut_commands(c.build()).next() {
        Some(Ok(UplinkDUTCommand::DutVersionsAns(p))) => {
            let k: usize = kani::any();
            kani::assume(k < 12);
            assert!(p.bytes()[k] == raw[k], "C19: DutVersionsAns bytes");
        }
        _ => assert!(false, "C19: DutVersionsAns parses as itself"),
    }
    let v: u16 = kani::any();
    let mut c = RxAppCntAnsCreator::new();
    c.set_rx_app_cnt(v);
    match parse_uplink_dut_commands(c.build()).next() {
        Some(Ok(UplinkDUTCommand::RxAppCntAns(p))) => assert!(p.bytes() == &v.to_le_bytes(), "C19: RxAppCntAns little-endian counter"),
        _ => assert!(false, "C19: RxAppCntAns parses as itself"),
    }
    let data: [u8; 16] = kani::any();
    let n: usize = kani::any();
    kani::assume(n >= 1 && n <= 16);
    let mut c = EchoIncPayloadAnsCreator::new();
    c.payload(&data[..n]);
    assert!(c.len() == n + 1 && c.build().len() == n + 1, "C19: EchoIncPayloadAns length");
    match parse_uplink_dut_commands(c.build()).next() {
        Some(Ok(UplinkDUTCommand::EchoIncPayloadAns(p))) => {
            let k: usize = kani::any();
            kani::assume(k < n);
            assert!(p.payload().len() == n && p.payload()[k] == data[k].wrapping_add(1), "C19: EchoIncPayloadAns echoes every byte incremented by one");
        }
        _ => assert!(false, "C19: EchoIncPayloadAns parses as itself"),
    }
}

//@h id=dut_echo_oversize props=C19 tier=quick build=enc cost=30 timeout=900
//@bounds EchoIncPayloadAnsCreator::payload with 241..=255 bytes (the command holds at most 241): refused or truncated, never a panic, the built command never exceeds 242 bytes
//@encodes EchoIncPayloadAnsCreator::payload, build
#[kani::proof]
#[kani::unwind(260)]
fn dut_echo_oversize() {
    let data: [u8; 255] = kani::any();
    let n: usize = kani::any();
    kani::assume(n >= 241 && n <= 255);
    let mut c = EchoIncPayloadAnsCreator::new();
    c.payload(&data[..n]);
    assert!(c.build().len() <= 242, "C19: an oversize echo payload is truncated to the command's capacity");
    kani::cover!(n == 255, "255-byte echo request");
}
