// shared helpers for lorawan-encoding harnesses (included with #[path] by each harness file)
use crate::default_crypto::model;

pub const MAXF: usize = 255;

/// an arbitrary byte string of length 0..=max (max <= 255) as (buffer, len)
pub fn any_bytes(max: usize) -> ([u8; MAXF], usize) {
    let b: [u8; MAXF] = kani::any();
    let len: usize = kani::any();
    kani::assume(len <= max);
    (b, len)
}

pub fn any_key() -> crate::keys::AES128 {
    crate::keys::AES128(kani::any())
}

/// reference B0 block for a data frame (LoRaWAN 1.0.x 4.4), packed little-endian as the model logs it
pub fn ref_b0(dir: u8, addr: [u8; 4], fcnt: u32, len: usize) -> u128 {
    let mut b = [0u8; 16];
    b[0] = 0x49;
    b[5] = dir;
    b[6] = addr[0];
    b[7] = addr[1];
    b[8] = addr[2];
    b[9] = addr[3];
    b[10] = fcnt as u8;
    b[11] = (fcnt >> 8) as u8;
    b[12] = (fcnt >> 16) as u8;
    b[13] = (fcnt >> 24) as u8;
    b[15] = len as u8;
    model::pack(&b)
}

/// reference A_i block (i = 1..) for FRMPayload encryption
pub fn ref_a(dir: u8, addr: [u8; 4], fcnt: u32, i: u8) -> u128 {
    let mut b = [0u8; 16];
    b[0] = 0x01;
    b[5] = dir;
    b[6] = addr[0];
    b[7] = addr[1];
    b[8] = addr[2];
    b[9] = addr[3];
    b[10] = fcnt as u8;
    b[11] = (fcnt >> 8) as u8;
    b[12] = (fcnt >> 16) as u8;
    b[13] = (fcnt >> 24) as u8;
    b[15] = i;
    model::pack(&b)
}
