//@file anchor=lorawan-encoding/src/parser.rs
// C19, identifier text forms: Display (MSB-first hex) -> FromStr returns the same wire value for
// every value; keys and EUIs of keys.rs parse from their hex form (MSB first; EUIs are stored
// LSB first).
use super::*;
use core::fmt::Write;
use core::str::FromStr;

/// fixed-capacity sink (no allocation)
struct Sink {
    b: [u8; 34],
    n: usize,
}
impl Write for Sink {
    fn write_str(&mut self, s: &str) -> core::fmt::Result {
        let mut i = 0;
        while i < s.len() {
            if self.n >= 34 {
                return Err(core::fmt::Error);
            }
            self.b[self.n] = s.as_bytes()[i];
            self.n += 1;
            i += 1;
        }
        Ok(())
    }
}
fn hexdigit(v: u8) -> u8 {
    if v < 10 { b'0' + v } else { b'a' + (v - 10) }
}

macro_rules! text_rt {
    ($name:ident, $t:ty, $int:ty, $n:expr, $unw:expr) => {
        #[kani::proof]
        #[kani::unwind($unw)]
        fn $name() {
            let wire: [u8; $n] = kani::any();
            let x = <$t>::from_wire_bytes(wire);
            let mut s = Sink { b: [0; 34], n: 0 };
            assert!(write!(s, "{}", x).is_ok(), "C19: the text form fits");
            assert!(s.n == 2 * $n, "C19: two hex digits per byte");
            // MSB first: the first two characters are the most significant (last wire) byte
            assert!(s.b[0] == hexdigit(wire[$n - 1] >> 4) && s.b[1] == hexdigit(wire[$n - 1] & 15), "C19: MSB-first lower-case hex");
            let k: usize = kani::any();
            kani::assume(k < $n);
            assert!(s.b[2 * k] == hexdigit(wire[$n - 1 - k] >> 4) && s.b[2 * k + 1] == hexdigit(wire[$n - 1 - k] & 15), "C19: byte k of the text is wire byte n-1-k");
            // every character was just shown to be an ASCII hex digit (universally quantified k):
            // skip core::str::from_utf8, whose word-at-a-time validation dominated the run time
            let txt = unsafe { core::str::from_utf8_unchecked(&s.b[..2 * $n]) };
            match <$t>::from_str(txt) {
                Ok(y) => assert!(y.as_wire_bytes() == &wire, "C19: printing and parsing returns the same wire value"),
                Err(_) => assert!(false, "C19: the printed form parses"),
            }
        }
    };
}
//@h id=text_dev_nonce props=C19 tier=quick build=enc cost=20 timeout=900
//@bounds DevNonce: all 2^16 values: Display gives 4 lower-case hex digits MSB first, FromStr returns the same wire bytes
//@encodes wire_value_newtype! Display / FromStr (DevNonce), from_value, value
text_rt!(text_dev_nonce, DevNonce, u16, 2, 8);
//@h id=text_join_nonce props=C19 tier=quick build=enc cost=30 timeout=900
//@bounds JoinNonce / NetId share the 24-bit form: all 2^24 values
text_rt!(text_join_nonce, JoinNonce, u32, 3, 10);
//@h id=text_net_id props=C19 tier=quick build=enc cost=30 timeout=900
//@bounds NetId: all 2^24 values
text_rt!(text_net_id, NetId, u32, 3, 10);
//@h id=text_dev_addr props=C19 tier=quick build=enc cost=40 timeout=900
//@bounds DevAddr: all 2^32 values
text_rt!(text_dev_addr, DevAddr, u32, 4, 12);
//@h id=text_mc_addr props=C19 tier=quick build=enc cost=40 timeout=900
//@bounds McAddr: all 2^32 values
text_rt!(text_mc_addr, McAddr, u32, 4, 12);
//@h id=text_dev_eui props=C19 tier=quick build=enc cost=90 timeout=1200
//@bounds DevEui: all 2^64 values
text_rt!(text_dev_eui, DevEui, u64, 8, 20);
//@h id=text_join_eui props=C19 tier=quick build=enc cost=90 timeout=1200
//@bounds JoinEui: all 2^64 values
text_rt!(text_join_eui, JoinEui, u64, 8, 20);

// ---- keys.rs / string.rs: FromStr of the hex form ----------------------------------------------------
macro_rules! key_from_hex {
    ($name:ident, $t:ty, $n:expr, $reversed:expr) => {
        #[kani::proof]
        #[kani::unwind(35)]
        fn $name() {
            let bytes: [u8; $n] = kani::any();
            // independent hex encoder: the text lists the bytes MSB first
            let mut txt = [0u8; 2 * $n];
            let mut i = 0;
            while i < $n {
                txt[2 * i] = hexdigit(bytes[i] >> 4);
                txt[2 * i + 1] = hexdigit(bytes[i] & 15);
                i += 1;
            }
            let s = unsafe { core::str::from_utf8_unchecked(&txt) };
            match <$t>::from_str(s) {
                Ok(k) => {
                    let stored: &[u8] = k.as_ref();
                    let j: usize = kani::any();
                    kani::assume(j < $n);
                    let want = if $reversed { bytes[$n - 1 - j] } else { bytes[j] };
                    assert!(stored[j] == want, "C19: the parsed key/EUI holds the bytes of its hex form (EUIs are stored LSB first)");
                }
                Err(_) => assert!(false, "C19: a well-formed hex string of the right length parses"),
            }
        }
    };
}
//@h id=text_app_key_from_hex props=C19 tier=quick build=enc cost=60 timeout=1200
//@bounds AppKey (same macro as NwkSKey, AppSKey, McRootKey, ...): every 16-byte value through FromStr of its 32-digit MSB-first hex form
//@encodes string.rs fixed_len_struct_impl_to_string_msb! FromStr, hex::decode_to_slice
//@out the Display direction of keys.rs types (allocates a String under the with-to-string feature)
key_from_hex!(text_app_key_from_hex, crate::keys::AppKey, 16, false);
//@h id=text_keys_dev_eui_from_hex props=C19 tier=quick build=enc cost=60 timeout=1200
//@bounds keys::DevEui (same macro as keys::AppEui): every 8-byte value through FromStr of its 16-digit MSB-first hex form, stored LSB first
//@encodes string.rs fixed_len_struct_impl_string_lsb! FromStr
key_from_hex!(text_keys_dev_eui_from_hex, crate::keys::DevEui, 8, true);
