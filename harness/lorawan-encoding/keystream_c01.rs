//@file anchor=lorawan-encoding/src/securityhelpers.rs
// C01-H2: the AES-CTR keystream kernel for concrete payload lengths (DESIGN R1).
use super::*;
use crate::default_crypto::{model, DefaultCrypto};
#[path = "common.rs"]
mod common;
use common::*;

const KBUF: usize = 280;

/// `start` is concrete per instance (a symbolic start offset turns every byte access into a
/// symbolic-index array operation: 242 bytes took 820 s instead of seconds)
fn keystream(len: usize) {
    keystream_at(len, 9)
}
fn keystream_at(len: usize, start: usize) {
    model::reset(0);
    unsafe { model::CONSISTENT.v = false; }
    let mut phy: [u8; KBUF] = kani::any();
    let orig = phy;
    // MHDR + FHDR(7..22) + FPort: 9 (no FOpts) or 24 (15 bytes of FOpts)
    let end = start + len;
    let fcnt: u32 = kani::any();
    let key = any_key();
    let c = DefaultCrypto::new(&key);
    encrypt_frm_data_payload(&mut phy, start, end, fcnt, &c);
    let nblocks = (len + 15) / 16;
    let dir = (orig[0] & 0x20) >> 5;
    let addr = [orig[1], orig[2], orig[3], orig[4]];
    unsafe {
        assert!(model::ENC_N.v == nblocks, "C01: one AES block per started 16 bytes");
        let j: usize = kani::any();
        if j < nblocks {
            let e = model::ENC.v[j];
            assert!(e.key == model::pack(&key.0) && !e.decrypt, "C01: keystream under the given key");
            assert!(e.input == ref_a(dir, addr, fcnt, (j + 1) as u8), "C01: block counter byte i = 1.. and the full 32-bit FCnt in A_i");
            let m: usize = kani::any();
            if m < len && m / 16 == j {
                assert!(phy[start + m] == orig[start + m] ^ model::byte(e.output, m % 16), "C01: byte m is xored with keystream byte m mod 16 of block m div 16");
            }
        }
    }
    let k: usize = kani::any();
    kani::assume(k < KBUF);
    if k < start || k >= end {
        assert!(phy[k] == orig[k], "C01: bytes outside the FRMPayload are untouched");
    }
}

macro_rules! ks { ($name:ident, $len:expr, $unw:expr) => {
    #[kani::proof]
    #[kani::unwind($unw)]
    fn $name() { keystream($len) }
}; }
//@h id=keystream_len_0 props=C01,C02 tier=quick build=enc cost=5 timeout=600
//@bounds payload length 0 at offset 9 (no FOpts); arbitrary frame bytes, counter, key
//@encodes securityhelpers::encrypt_frm_data_payload, generate_helper_block
ks!(keystream_len_0, 0, 4);
//@h id=keystream_len_1 props=C01,C02 tier=quick build=enc cost=5 timeout=600
//@bounds payload length 1
ks!(keystream_len_1, 1, 4);
//@h id=keystream_len_15 props=C01,C02 tier=quick build=enc cost=5 timeout=600
//@bounds payload length 15
ks!(keystream_len_15, 15, 18);
//@h id=keystream_len_16 props=C01,C02 tier=quick build=enc cost=5 timeout=600
//@bounds payload length 16
ks!(keystream_len_16, 16, 18);
//@h id=keystream_len_17 props=C01,C02 tier=quick build=enc cost=5 timeout=600
//@bounds payload length 17
ks!(keystream_len_17, 17, 20);
//@h id=keystream_len_33 props=C01,C02 tier=quick build=enc cost=10 timeout=600
//@bounds payload length 33
ks!(keystream_len_33, 33, 36);
//@h id=keystream_len_64 props=C01,C02 tier=quick build=enc cost=10 timeout=600
//@bounds payload length 64
ks!(keystream_len_64, 64, 66);
//@h id=keystream_len_242 props=C01,C02 tier=quick build=enc cost=30 timeout=900
//@bounds payload length 242 (the LoRaWAN maximum): 16 keystream blocks
ks!(keystream_len_242, 242, 244);
//@h id=keystream_len_18_fopts15 props=C01,C02 tier=quick build=enc cost=10 timeout=600
//@bounds payload length 18 starting at offset 24 (15 bytes of FOpts)
#[kani::proof]
#[kani::unwind(22)]
fn keystream_len_18_fopts15() { keystream_at(18, 24) }
//@h id=keystream_len_31 props=C01,C02 tier=thorough build=enc cost=10 timeout=600
//@bounds payload length 31
ks!(keystream_len_31, 31, 34);
//@h id=keystream_len_32 props=C01,C02 tier=thorough build=enc cost=10 timeout=600
//@bounds payload length 32
ks!(keystream_len_32, 32, 34);
//@h id=keystream_len_48 props=C01,C02 tier=thorough build=enc cost=10 timeout=600
//@bounds payload length 48
ks!(keystream_len_48, 48, 50);
//@h id=keystream_len_128 props=C01,C02 tier=thorough build=enc cost=20 timeout=900
//@bounds payload length 128
ks!(keystream_len_128, 128, 130);
//@h id=keystream_len_241 props=C01,C02 tier=thorough build=enc cost=30 timeout=900
//@bounds payload length 241
ks!(keystream_len_241, 241, 244);
//@h id=keystream_len_255 props=C01,C02 tier=thorough build=enc cost=30 timeout=900
//@bounds payload length 255
ks!(keystream_len_255, 255, 258);
