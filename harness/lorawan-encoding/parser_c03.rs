//@file anchor=lorawan-encoding/src/parser.rs
// C03: frame parsers and every accessor are total (no panic, no OOB, no overflow) on arbitrary bytes.
use super::*;
use crate::default_crypto::{model, DefaultCrypto};
#[path = "common.rs"]
mod common;
use common::*;

fn touch_data(p: &EncryptedDataPayload<'_>) {
    let _ = p.frame_type();
    let _ = p.is_uplink();
    let _ = p.is_confirmed();
    let h = p.fhdr();
    let _ = h.dev_addr().value();
    let _ = h.mc_addr().value();
    let c = h.fctrl();
    let _ = (c.adr(), c.adr_ack_req(), c.ack(), c.f_pending(), c.f_opts_len(), c.raw_value());
    let _ = h.fcnt();
    let fo = h.f_opts();
    assert!(fo.len() <= 15);
    assert!(fo.len() == c.f_opts_len());
    let _ = p.f_port();
    let _ = p.mic();
    let _ = p.as_bytes().len();
}

//@h id=parse_any props=C03 tier=quick build=enc cost=20 timeout=600 kind=panicfree
//@bounds every byte string of length 0..=255 (all 2^2040 contents) through parser::parse and every accessor of the resulting view (JoinRequest, encrypted JoinAccept, encrypted data frame)
//@encodes parser::parse, JoinRequestPayload::parse + accessors, EncryptedJoinAcceptPayload::parse, EncryptedDataPayload::parse, Layout::validate, Fhdr accessors, FCtrl accessors
#[kani::proof]
#[kani::unwind(6)]
fn parse_any() {
    let (b, len) = any_bytes(255);
    let s = &b[..len];
    match parse(s) {
        Ok(PhyPayload::JoinRequest(j)) => {
            kani::cover!(true, "join request parsed");
            assert!(len == 23);
            let _ = j.join_eui().value();
            let _ = j.dev_eui().value();
            let _ = j.dev_nonce().value();
            let _ = j.mic();
            let _ = j.as_bytes().len();
        }
        Ok(PhyPayload::JoinAccept(j)) => {
            kani::cover!(len == 33, "join accept with CFList parsed");
            assert!(len == 17 || len == 33);
            let _ = j.as_bytes().len();
        }
        Ok(PhyPayload::Data(d)) => {
            kani::cover!(len == 255, "255-byte data frame parsed");
            assert!(len >= 12);
            touch_data(&d);
        }
        Err(_) => {
            kani::cover!(len == 255, "255-byte string rejected");
        }
    }
}

//@h id=decrypt_any_data props=C03 tier=quick build=enc cost=120 timeout=900 kind=panicfree
//@bounds every byte string of length 0..=40 through DecryptedDataPayload::decrypt_in_place (keys present or absent, any counter) and every accessor of the decrypted view; crypto = uninterpreted model
//@encodes DecryptedDataPayload::decrypt_in_place, frm_payload + accessors, securityhelpers::encrypt_frm_data_payload, generate_helper_block
//@out decrypt_in_place on frames longer than 40 bytes (the keystream kernel is covered for every length by C01 keystream harnesses)
#[kani::proof]
#[kani::unwind(42)]
fn decrypt_any_data() {
    let (mut b, len) = any_bytes(40);
    model::reset(0);
    unsafe { model::CONSISTENT.v = false; }
    let nwk = DefaultCrypto::new(&any_key());
    let app = DefaultCrypto::new(&any_key());
    let use_nwk: bool = kani::any();
    let use_app: bool = kani::any();
    let fcnt: u32 = kani::any();
    let r = DecryptedDataPayload::decrypt_in_place(
        &mut b[..len],
        if use_nwk { Some(&nwk) } else { None },
        if use_app { Some(&app) } else { None },
        fcnt,
    );
    if let Ok(d) = r {
        kani::cover!(len == 40, "40-byte frame decrypted");
        let _ = d.frame_type();
        let _ = d.fhdr().f_opts().len();
        let _ = d.f_port();
        let _ = d.mic();
        match d.frm_payload() {
            FrmPayload::Data(x) => assert!(x.len() <= len),
            FrmPayload::MacCommands(x) => assert!(x.len() <= len),
            FrmPayload::None => {}
        }
    }
}

//@h id=decrypt_any_join_accept props=C03 tier=quick build=enc cost=30 timeout=600 kind=panicfree
//@bounds every byte string of length 0..=40 through DecryptedJoinAcceptPayload::{decrypt_in_place, check_mic_and_decrypt_in_place} and every accessor incl. c_f_list and key derivation; crypto = uninterpreted model
//@encodes DecryptedJoinAcceptPayload::decrypt_in_place, check_mic_and_decrypt_in_place, validate_mic, join_nonce, net_id, dev_addr, dl_settings, rx_delay, c_f_list, derive_nwkskey, derive_appskey
#[kani::proof]
#[kani::unwind(8)]
fn decrypt_any_join_accept() {
    let (mut b, len) = any_bytes(40);
    model::reset(0);
    unsafe { model::CONSISTENT.v = false; }
    let key = DefaultCrypto::new(&any_key());
    let checked: bool = kani::any();
    let r = if checked {
        DecryptedJoinAcceptPayload::check_mic_and_decrypt_in_place(&mut b[..len], &key)
    } else {
        DecryptedJoinAcceptPayload::decrypt_in_place(&mut b[..len], &key)
    };
    if let Ok(j) = r {
        kani::cover!(len == 33, "33-byte join accept decrypted");
        kani::cover!(len == 17, "17-byte join accept decrypted");
        let _ = j.join_nonce().value();
        let _ = j.net_id().value();
        let _ = j.dev_addr().value();
        let dl = j.dl_settings();
        let _ = (dl.rx1_dr_offset(), dl.rx2_data_rate(), dl.raw_value());
        assert!(j.rx_delay() <= 15);
        match j.c_f_list() {
            Some(CfList::DynamicChannel(f)) => {
                assert!(len == 33);
                let _ = f[4].hz();
            }
            Some(CfList::FixedChannel(m)) => {
                assert!(len == 33);
                let _ = m.is_enabled(71);
            }
            None => {}
        }
        let _ = j.mic();
        let _ = j.validate_mic(&key);
        let n: u16 = kani::any();
        let _ = j.derive_nwkskey(DevNonce::from_value(n), &key);
        let _ = j.derive_appskey(DevNonce::from_value(n), &key);
    }
}
