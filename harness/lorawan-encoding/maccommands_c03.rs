//@file anchor=lorawan-encoding/src/maccommands.rs
// C03-H3: one step of the MAC command stream iterator from an arbitrary iterator state.
use super::*;

//@h id=iterator_step props=C03 tier=quick build=enc cost=40 timeout=900
//@bounds one MacCommands::next() step from an arbitrary iterator state (remaining bytes 0..=255, errored flag arbitrary): fused after an error, advances by exactly one whole command, each Ok consumes at least one byte (hence termination and at most one error, by induction)
//@encodes MacCommands::next
#[kani::proof]
#[kani::unwind(8)]
fn iterator_step() {
    let b: [u8; 255] = kani::any();
    let len: usize = kani::any();
    kani::assume(len <= 255);
    let mut it: MacCommands<'_, DownlinkMacCommand<'_>> = MacCommands::new(&b[..len]);
    let errored: bool = kani::any();
    it.errored = errored;
    let r = it.next();
    match r {
        None => {
            assert!(errored || len == 0, "C03: the iterator ends only when exhausted or after an error");
            assert!(it.data.len() == len && it.errored == errored, "C03: a finished iterator stays put");
        }
        Some(Ok(c)) => {
            assert!(!errored, "C03: nothing is yielded after an error (fused)");
            assert!(it.data.len() + 1 + c.len() == len, "C03: the iterator advances by exactly the yielded command");
            assert!(it.data.len() < len, "C03: every yielded command consumes at least one byte (termination)");
            assert!(!it.errored, "C03: no error recorded");
        }
        Some(Err(_)) => {
            assert!(!errored, "C03: at most one error is yielded");
            assert!(it.errored, "C03: the iterator is fused after the error");
        }
    }
}
