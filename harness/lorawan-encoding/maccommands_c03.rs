//@file anchor=lorawan-encoding/src/maccommands.rs
// C03-H3: one step of the MAC command stream iterator from an arbitrary iterator state.
use super::*;

//@h id=iterator_step props=C03 tier=quick build=enc cost=40 timeout=900
//@bounds one MacCommands::next() step from an arbitrary iterator state (remaining bytes 0..=255, errored flag arbitrary): fused after an error, advances by exactly one whole command, each Ok consumes at least one byte (hence termination and at most one error, by induction)
//@encodes MacCommands::next
#[kani::proof]
#[kani::unwind(8)]
fn iterator_step() {
    let b: [u8; 255] = kani::any();
    let len: usize = kani::any();
    kani::assume(len <= 255);
    let mut it: MacCommands<'_, DownlinkMacCommand<'_>> = MacCommands::new(&b[..len]);
    let errored: bool = kani::any();
    it.errored = errored;
    let r = it.next();
    match r {
        None => {
            assert!(errored || len == 0, "C03: the iterator ends only when exhausted or after an error");
            assert!(it.data.len() == len && it.errored == errored, "C03: a finished iterator stays put");
        }
        Some(Ok(c)) => {
            assert!(!errored, "C03: nothing is yielded after an error (fused)");
            assert!(it.data.len() + 1 + c.len() == len, "C03: the iterator advances by exactly the yielded command");
            assert!(it.data.len() < len, "C03: every yielded command consumes at least one byte (termination)");
            assert!(!it.errored, "C03: no error recorded");
        }
        Some(Err(_)) => {
            assert!(!errored, "C03: at most one error is yielded");
            assert!(it.errored, "C03: the iterator is fused after the error");
        }
    }
}

/// one `next()` step of the stream iterator over command set `T` from an arbitrary state; the
/// step calls the derive-generated `T::parse_one` on every byte string (every CID, every
/// truncation point, fixed- and variable-length commands)
fn iterator_step_set<'a, T: MacCommandSet<'a>>(b: &'a [u8; 255]) {
    let len: usize = kani::any();
    kani::assume(len <= 255);
    let mut it: MacCommands<'a, T> = MacCommands::new(&b[..len]);
    let errored: bool = kani::any();
    it.errored = errored;
    match it.next() {
        None => {
            assert!(errored || len == 0, "C03: the iterator ends only when exhausted or after an error");
            assert!(it.data.len() == len && it.errored == errored, "C03: a finished iterator stays put");
        }
        Some(Ok(_)) => {
            assert!(!errored, "C03: nothing is yielded after an error (fused)");
            assert!(it.data.len() < len, "C03: every yielded command consumes at least one byte and lies inside the input");
            assert!(!it.errored, "C03: no error recorded");
            kani::cover!(it.data.len() + 1 < len, "command with a payload");
        }
        Some(Err(e)) => {
            assert!(!errored, "C03: at most one error is yielded");
            assert!(it.errored, "C03: the iterator is fused after the error");
            match e {
                ParseError::Truncated { cid } => assert!(cid == b[0], "C03: truncated error names the CID"),
                ParseError::UnknownCid(cid) => assert!(cid == b[0], "C03: unknown CID error names the CID"),
            }
        }
    }
}

macro_rules! set_step {
    ($name:ident, $t:ty) => {
        #[kani::proof]
        #[kani::unwind(8)]
        fn $name() {
            let b: [u8; 255] = kani::any();
            iterator_step_set::<$t>(&b);
        }
    };
}
//@h id=iterator_step_uplink props=C03 tier=quick build=enc cost=40 timeout=900
//@bounds as iterator_step, uplink LoRaWAN MAC command set
//@encodes MacCommands::next, UplinkMacCommand::parse_one (derive-generated)
set_step!(iterator_step_uplink, UplinkMacCommand<'_>);
//@h id=iterator_step_mc_downlink props=C03 tier=quick build=enc cost=40 timeout=900
//@bounds as iterator_step, multicast remote-setup downlink set
//@encodes MacCommands::next, multicast::DownlinkRemoteSetup::parse_one
set_step!(iterator_step_mc_downlink, crate::multicast::DownlinkRemoteSetup<'_>);
//@h id=iterator_step_mc_uplink props=C03 tier=quick build=enc cost=40 timeout=900
//@bounds as iterator_step, multicast remote-setup uplink set (McGroupStatusAns is variable-length: its length comes from the status byte)
//@encodes MacCommands::next, multicast::UplinkRemoteSetup::parse_one, McGroupStatusAnsPayload::len
set_step!(iterator_step_mc_uplink, crate::multicast::UplinkRemoteSetup<'_>);
//@h id=iterator_step_dut_downlink props=C03 tier=quick build=enc cost=40 timeout=900
//@bounds as iterator_step, certification (TS009) downlink set (two variable-length commands taking the rest of the stream)
//@encodes MacCommands::next, certification::DownlinkDUTCommand::parse_one
set_step!(iterator_step_dut_downlink, crate::certification::DownlinkDUTCommand<'_>);
//@h id=iterator_step_dut_uplink props=C03 tier=quick build=enc cost=40 timeout=900
//@bounds as iterator_step, certification (TS009) uplink set
//@encodes MacCommands::next, certification::UplinkDUTCommand::parse_one
set_step!(iterator_step_dut_uplink, crate::certification::UplinkDUTCommand<'_>);
