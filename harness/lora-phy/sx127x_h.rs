//@file anchor=lora-phy/src/sx127x/mod.rs
// SX127x driver-level harnesses (C15, C17, C18).
use super::*;
use crate::verif_kani_lora_phy_mock::*;

pub(crate) fn radio_1276() -> Sx127x<MockSpi, MockIv, Sx1276> {
    Sx127x::new(MockSpi::new(), MockIv::new(), Config { chip: Sx1276, tcxo_used: kani::any(), tx_boost: kani::any(), rx_boost: kani::any() })
}
pub(crate) fn radio_1272() -> Sx127x<MockSpi, MockIv, Sx1272> {
    Sx127x::new(MockSpi::new(), MockIv::new(), Config { chip: Sx1272, tcxo_used: kani::any(), tx_boost: kani::any(), rx_boost: kani::any() })
}

/// value of the last write (register | 0x80, value) to `reg` in the SPI log, if any
fn last_write(spi: &SpiLog, reg: u8) -> Option<u8> {
    let mut v = None;
    let mut i = 0;
    while i < MAXT {
        if i < spi.n && spi.t[i].wlen == 2 && spi.t[i].w[0] == (reg | 0x80) {
            v = Some(spi.t[i].w[1]);
        }
        i += 1;
    }
    v
}

//@h id=ldro_rule_sx1276 props=C15 tier=quick build=phy cost=40 timeout=900
//@bounds all 8 SF x 10 BW x 4 CR, any frequency >= 400 MHz, arbitrary prior register contents: decision and RegModemConfig3 bit 3
//@encodes Sx127x::create_modulation_params, Sx1276::set_modulation_params, Sx1276::bandwidth_value
#[kani::proof]
#[kani::unwind(26)]
fn ldro_rule_sx1276() {
    let mut r = radio_1276();
    r.data = Default::default();
    let (sf, bw, cr) = (any_sf(), any_bw(), any_cr());
    let f: u32 = kani::any();
    kani::assume(f >= 400_000_000);
    match r.create_modulation_params(sf, bw, cr, f) {
        Ok(mp) => {
            kani::cover!(mp.low_data_rate_optimize == 1, "ldro on");
            kani::assert((mp.low_data_rate_optimize != 0) == ref_ldro(sf, bw), "C15: SX127x LDRO decision differs from 2^SF/BW >= 16.38 ms");
            let res = block_on(r.set_modulation_params(&mp));
            kani::assert(res.is_ok(), "set_modulation_params failed on a fault-free bus");
            match last_write(spi(), 0x26) {
                Some(v) => kani::assert((v & 0x08 != 0) == ref_ldro(sf, bw), "C15: RegModemConfig3.LowDataRateOptimize programmed into the SX1276"),
                None => kani::assert(false, "C15: RegModemConfig3 not written"),
            }
        }
        Err(_) => kani::assert(matches!(sf, SpreadingFactor::_5), "C15: only SF5 is unsupported by the SX1276"),
    }
}

//@h id=ldro_rule_sx1272 props=C15 tier=quick build=phy cost=40 timeout=900
//@bounds all 8 SF x 10 BW x 4 CR (the SX1272 supports 125/250/500 kHz), arbitrary prior register contents: decision and RegModemConfig1 bit 0
//@encodes Sx127x::create_modulation_params, Sx1272::set_modulation_params, Sx1272::bandwidth_value
#[kani::proof]
#[kani::unwind(26)]
fn ldro_rule_sx1272() {
    let mut r = radio_1272();
    let (sf, bw, cr) = (any_sf(), any_bw(), any_cr());
    let f: u32 = kani::any();
    kani::assume(f >= 400_000_000);
    match r.create_modulation_params(sf, bw, cr, f) {
        Ok(mp) => {
            kani::cover!(mp.low_data_rate_optimize == 1, "ldro on");
            kani::assert(matches!(bw, Bandwidth::_125KHz | Bandwidth::_250KHz | Bandwidth::_500KHz), "C15: SX1272 supports three bandwidths");
            kani::assert((mp.low_data_rate_optimize != 0) == ref_ldro(sf, bw), "C15: SX127x LDRO decision differs from 2^SF/BW >= 16.38 ms");
            let res = block_on(r.set_modulation_params(&mp));
            kani::assert(res.is_ok(), "set_modulation_params failed on a fault-free bus");
            match last_write(spi(), 0x1D) {
                Some(v) => kani::assert((v & 0x01 != 0) == ref_ldro(sf, bw), "C15: RegModemConfig1.LowDataRateOptimize programmed into the SX1272"),
                None => kani::assert(false, "C15: RegModemConfig1 not written"),
            }
        }
        Err(_) => {}
    }
}
