//@file anchor=lora-phy/src/sx127x/mod.rs
// SX127x driver-level harnesses (C15, C17, C18).
use super::*;
use crate::verif_kani_lora_phy_mock::*;
use crate::verif_kani_lora_phy_regmock::{rf, RegSpi};

pub(crate) fn radio_1276() -> Sx127x<MockSpi, MockIv, Sx1276> {
    Sx127x::new(MockSpi::new(), MockIv::new(), Config { chip: Sx1276, tcxo_used: kani::any(), tx_boost: kani::any(), rx_boost: kani::any() })
}
pub(crate) fn radio_1272() -> Sx127x<MockSpi, MockIv, Sx1272> {
    Sx127x::new(MockSpi::new(), MockIv::new(), Config { chip: Sx1272, tcxo_used: kani::any(), tx_boost: kani::any(), rx_boost: kani::any() })
}

/// value of the last write (register | 0x80, value) to `reg` in the SPI log, if any
fn last_write(spi: &SpiLog, reg: u8) -> Option<u8> {
    let mut v = None;
    let mut i = 0;
    while i < MAXT {
        if i < spi.n && spi.t[i].wlen == 2 && spi.t[i].w[0] == (reg | 0x80) {
            v = Some(spi.t[i].w[1]);
        }
        i += 1;
    }
    v
}

//@h id=ldro_rule_sx1276 props=C15 tier=quick build=phy cost=20 timeout=900
//@bounds all 8 SF x 10 BW x 4 CR, any frequency >= 400 MHz: LDRO decision of Sx127x::create_modulation_params (SX1276 variant)
//@encodes Sx127x::create_modulation_params, Sx1276::bandwidth_value, spreading_factor_value
#[kani::proof]
#[kani::unwind(26)]
fn ldro_rule_sx1276() {
    let r = radio_1276();
    let (sf, bw, cr) = (any_sf(), any_bw(), any_cr());
    let f: u32 = kani::any();
    kani::assume(f >= 400_000_000);
    match r.create_modulation_params(sf, bw, cr, f) {
        Ok(mp) => {
            kani::cover!(mp.low_data_rate_optimize == 1, "ldro on");
            kani::assert(mp.low_data_rate_optimize <= 1, "C15: LDRO flag is 0/1");
            kani::assert((mp.low_data_rate_optimize != 0) == ref_ldro(sf, bw), "C15: SX127x LDRO decision differs from 2^SF/BW >= 16.38 ms");
        }
        Err(_) => kani::assert(matches!(sf, SpreadingFactor::_5), "C15: only SF5 is unsupported by the SX1276"),
    }
}

//@h id=ldro_rule_sx1272 props=C15 tier=quick build=phy cost=20 timeout=900
//@bounds all 8 SF x 10 BW x 4 CR (the SX1272 supports 125/250/500 kHz): LDRO decision
//@encodes Sx127x::create_modulation_params, Sx1272::bandwidth_value
#[kani::proof]
#[kani::unwind(26)]
fn ldro_rule_sx1272() {
    let r = radio_1272();
    let (sf, bw, cr) = (any_sf(), any_bw(), any_cr());
    let f: u32 = kani::any();
    kani::assume(f >= 400_000_000);
    match r.create_modulation_params(sf, bw, cr, f) {
        Ok(mp) => {
            kani::cover!(mp.low_data_rate_optimize == 1, "ldro on");
            kani::assert(matches!(bw, Bandwidth::_125KHz | Bandwidth::_250KHz | Bandwidth::_500KHz), "C15: SX1272 supports three bandwidths");
            kani::assert((mp.low_data_rate_optimize != 0) == ref_ldro(sf, bw), "C15: SX127x LDRO decision differs from 2^SF/BW >= 16.38 ms");
        }
        Err(_) => {}
    }
}

//@h id=ldro_bit_sx1272 props=C15 tier=quick build=phy cost=90 timeout=1200
//@bounds SX1272 set_modulation_params with the LDRO flag symbolic, arbitrary prior register contents: RegModemConfig1 bit 0 equals the flag
//@encodes Sx1272::set_modulation_params
#[kani::proof]
#[kani::unwind(26)]
fn ldro_bit_sx1272() {
    let mut r = radio_1272();
    let ldro: bool = kani::any();
    let mp = ModulationParams { spreading_factor: SpreadingFactor::_12, bandwidth: Bandwidth::_125KHz, coding_rate: any_cr(), low_data_rate_optimize: ldro as u8, frequency_in_hz: 868_100_000 };
    let res = block_on(r.set_modulation_params(&mp));
    kani::assert(res.is_ok(), "set_modulation_params failed on a fault-free bus");
    match last_write(spi(), 0x1D) {
        Some(v) => kani::assert((v & 0x01 != 0) == ldro, "C15: RegModemConfig1.LowDataRateOptimize programmed into the SX1272"),
        None => kani::assert(false, "C15: RegModemConfig1 not written"),
    }
}

// ---- C17: PA configuration, symbol timeout, packet status -------------------------------------
/// register-file chip model (regmock.rs): the registers are read after the call instead of
/// scanning a transaction log (the log scan made counterexample playback run out of memory)
fn tx_power_1276(boost: bool) {
    let mut r = Sx127x::new(RegSpi::new(), MockIv::new(), Config { chip: Sx1276, tcxo_used: false, tx_boost: boost, rx_boost: kani::any() });
    let req: i32 = kani::any();
    let res = block_on(Sx1276::set_tx_power(&mut r, req, boost));
    kani::assert(res.is_ok(), "C17: fault-free bus");
    kani::assert(!rf().bad, "C17: only well-formed register accesses");
    let (c, d) = (rf().get(0x09), rf().get(0x4D));
    let op = (c & 0x0f) as i32;
    let maxp = ((c >> 4) & 7) as i32;
    kani::assert((c & 0x80 != 0) == boost, "C17: PaSelect matches the board's PA path");
    kani::assert(d == 0x84 || d == 0x87, "C17: RegPaDac is one of the two documented values");
    // SX1276 datasheet 5.4.2/5.4.3, in tenths of a dB
    let pout10 = if boost {
        if d == 0x87 { 10 * (5 + op) } else { 10 * (2 + op) }
    } else {
        108 + 6 * maxp - 10 * (15 - op)
    };
    kani::assert(!(d == 0x87) || boost, "C17: the +20 dBm DAC setting is only used on PA_BOOST");
    kani::assert(!(d == 0x87) || op >= 10, "C17: +20 dBm mode is defined for OutputPower 15 down to +15 dBm");
    let (lo, hi) = if boost { (2, 20) } else { (-4, 14) };
    let want = if req < lo { lo } else if req > hi { hi } else { req };
    kani::assert(pout10 <= 10 * want && pout10 >= 10 * want - 10, "C17: programmed power is the clamped request (within 1 dB, never above)");
}

//@h id=tx_power_sx1276_boost props=C17 tier=quick build=phy cost=30 timeout=900
//@bounds every i32 power request on the PA_BOOST path
//@encodes Sx1276::set_tx_power, Sx127x::set_ocp
#[kani::proof]
#[kani::unwind(26)]
fn tx_power_sx1276_boost() {
    tx_power_1276(true);
}
//@h id=tx_power_sx1276_rfo props=C17 tier=quick build=phy cost=30 timeout=900
//@bounds every i32 power request on the RFO path
//@encodes Sx1276::set_tx_power
#[kani::proof]
#[kani::unwind(26)]
fn tx_power_sx1276_rfo() {
    tx_power_1276(false);
}

fn tx_power_1272(boost: bool) {
    let mut r = Sx127x::new(RegSpi::new(), MockIv::new(), Config { chip: Sx1272, tcxo_used: false, tx_boost: boost, rx_boost: kani::any() });
    let req: i32 = kani::any();
    let res = block_on(Sx1272::set_tx_power(&mut r, req, boost));
    kani::assert(res.is_ok(), "C17: fault-free bus");
    kani::assert(!rf().bad, "C17: only well-formed register accesses");
    let (c, d) = (rf().get(0x09), rf().get(0x5A));
    let op = (c & 0x0f) as i32;
    kani::assert((c & 0x80 != 0) == boost && c & 0x70 == 0, "C17: PaSelect matches the PA path, unused bits clear");
    kani::assert(d == 0x84 || d == 0x87, "C17: RegPaDac is one of the two documented values");
    // SX1272 datasheet: RFO Pout = -1 + OutputPower; PA_BOOST 2 + OutputPower (5 + .. with the 20 dBm DAC)
    let pout = if boost { if d == 0x87 { 5 + op } else { 2 + op } } else { -1 + op };
    kani::assert(!(d == 0x87) || boost, "C17: the +20 dBm DAC setting is only used on PA_BOOST");
    let (lo, hi) = if boost { (2, 20) } else { (-1, 14) };
    let want = if req < lo { lo } else if req > hi { hi } else { req };
    kani::assert(pout == want, "C17: programmed power is the clamped request");
}
//@h id=tx_power_sx1272_boost props=C17 tier=quick build=phy cost=30 timeout=900
//@bounds every i32 power request on the PA_BOOST path of the SX1272
//@encodes Sx1272::set_tx_power
#[kani::proof]
#[kani::unwind(26)]
fn tx_power_sx1272_boost() {
    tx_power_1272(true);
}
//@h id=tx_power_sx1272_rfo props=C17 tier=quick build=phy cost=30 timeout=900
//@bounds every i32 power request on the RFO path of the SX1272
//@encodes Sx1272::set_tx_power
#[kani::proof]
#[kani::unwind(26)]
fn tx_power_sx1272_rfo() {
    tx_power_1272(false);
}

//@h id=symb_timeout_sx127x props=C17 tier=quick build=phy cost=30 timeout=900
//@bounds every u16 symbol count, arbitrary prior RegModemConfig2: the 10-bit SymbTimeout decodes to min(request, 1023) and the other bits of RegModemConfig2 are preserved
//@encodes Sx127x::set_lora_symbol_num_timeout
#[kani::proof]
#[kani::unwind(26)]
fn symb_timeout_sx127x() {
    let mut r = Sx127x::new(RegSpi::new(), MockIv::new(), Config { chip: Sx1276, tcxo_used: false, tx_boost: kani::any(), rx_boost: kani::any() });
    let n: u16 = kani::any();
    let res = block_on(r.set_lora_symbol_num_timeout(n));
    kani::assert(res.is_ok(), "C17: fault-free bus");
    kani::assert(!rf().bad, "C17: only well-formed register accesses");
    let (c2, lsb, prior) = (rf().get(0x1E), rf().get(0x1F), rf().init(0x1E));
    let decoded = (((c2 & 3) as u32) << 8) | lsb as u32;
    let want = if n > 1023 { 1023 } else { n as u32 };
    kani::assert(decoded == want, "C17: SymbTimeout decodes to the request (up to the 10-bit maximum)");
    kani::assert(c2 & 0xFC == prior & 0xFC, "C13: read-modify-write preserves SF/CRC bits of RegModemConfig2");
}

//@h id=pkt_status_sx1276 props=C17 tier=quick build=phy cost=40 timeout=900
//@bounds all raw (PktSnrValue, PktRssiValue) pairs, any frequency band: SNR = raw/4, RSSI = offset + 16/15 raw (+ SNR when negative; the datasheet's un-linearised form is accepted as well) within 1 dB, no overflow
//@encodes Sx127x::get_rx_packet_status, linearize_rssi, Sx1276::rssi_offset
#[kani::proof]
#[kani::unwind(26)]
fn pkt_status_sx1276() {
    let mut r = radio_1276();
    let res = block_on(r.get_rx_packet_status());
    let l = spi();
    let raw_snr = l.script[0][0] as i8 as i32;
    let raw_rssi = l.script[1][0] as i32;
    match res {
        Ok(ps) => {
            kani::assert((ps.snr as i32) * 4 <= raw_snr + 4 && (ps.snr as i32) * 4 >= raw_snr - 4, "C17: SNR within 1 dB of raw/4");
            let rssi = ps.rssi as i32;
            // offset: -157 (HF) or -164 (LF)
            let mut ok = false;
            let mut k = 0;
            while k < 2 {
                let off = if k == 0 { -157 } else { -164 };
                // in fifteenths of a dB
                let lin15 = 15 * off + 16 * raw_rssi;
                let raw15 = 15 * off + 15 * raw_rssi;
                let snr15 = if raw_snr < 0 { 15 * raw_snr / 4 } else { 0 };
                if (15 * rssi - (lin15 + snr15)).abs() <= 19 || (raw_snr < 0 && (15 * rssi - (raw15 + snr15)).abs() <= 19) {
                    ok = true;
                }
                k += 1;
            }
            kani::assert(ok, "C17: RSSI within rounding of the datasheet conversion");
        }
        Err(_) => kani::assert(false, "C17: fault-free bus"),
    }
}

// ---- C18: fetching a received packet never overruns the caller's buffer ------------------------
fn rx_payload_127x<const B: usize>(implicit: bool) {
    let mut r = radio_1276();
    let canary: u8 = kani::any();
    let mut buf = [canary; B];
    let cfg_len: u8 = kani::any();
    let pp = PacketParams { preamble_length: 8, implicit_header: implicit, payload_length: cfg_len, crc_on: true, iq_inverted: true };
    let res = block_on(r.get_rx_payload(&pp, &mut buf));
    let l = spi();
    // universally quantified buffer position (none when the buffer is empty)
    let k: usize = kani::any();
    kani::assume(B == 0 || k < B);
    let canary_ok = |buf: &[u8; B]| B == 0 || buf[k] == canary;
    match res {
        Ok(n) => {
            let n = n as usize;
            kani::assert(n <= B, "C18: returned length exceeds the caller's buffer");
            let want = if implicit { cfg_len as usize } else { l.script[0][0] as usize };
            kani::assert(n == want, "C18: returned length is RegRxNbBytes (implicit header: the configured length)");
            // sequence: [read RxNbBytes,] read FifoRxCurrentAddr, write FifoAddrPtr, read Fifo, write FifoAddrPtr=0
            let base = if implicit { 0 } else { 1 };
            kani::assert(l.n == base + 4, "C18: transaction count");
            let cur = l.script[base][0];
            kani::assert(l.t[base].w[0] == 0x10, "C18: RegFifoRxCurrentAddr is read");
            kani::assert(l.t[base + 1].w[0] == 0x8D && l.t[base + 1].w[1] == cur, "C18: FIFO pointer set to the start of the received packet");
            kani::assert(l.t[base + 2].w[0] == 0x00 && l.t[base + 2].rlen == n, "C18: exactly the packet's bytes are read from the FIFO");
            if B == 0 {
                // nothing to compare
            } else if k >= n {
                kani::assert(buf[k] == canary, "C18: bytes beyond the packet must be left untouched");
            } else if n > MAXRB {
                if k == l.big_j {
                    kani::assert(buf[k] == l.big_v, "C18: packet bytes come from the FIFO");
                }
            } else {
                kani::assert(buf[k] == script_at(base + 2, k), "C18: packet bytes come from the FIFO");
            }
            kani::cover!(n == B && B > 0, "info: packet fills the buffer exactly");
            kani::cover!(true, "witness: a packet was fetched");
        }
        Err(e) => {
            kani::assert(canary_ok(&buf), "C18: a failed fetch must not touch the buffer");
            kani::cover!(matches!(e, RadioError::PayloadSizeMismatch(_, _)), "info: chip reports more bytes than the buffer holds");
        }
    }
}
macro_rules! rxp127 { ($name:ident, $b:expr, $imp:expr) => {
    #[kani::proof]
    #[kani::unwind(26)]
    fn $name() { rx_payload_127x::<$b>($imp) }
}; }
//@h id=rx_payload_sx127x_b0 props=C18 tier=quick build=phy cost=20 timeout=900
//@bounds caller buffer of 0 bytes, explicit header; RegRxNbBytes and RegFifoRxCurrentAddr arbitrary
//@encodes Sx127x::get_rx_payload, read_register, read_buffer, write_register
rxp127!(rx_payload_sx127x_b0, 0, false);
//@h id=rx_payload_sx127x_b1 props=C18 tier=quick build=phy cost=20 timeout=900
//@bounds caller buffer of 1 byte, implicit header with any configured length
rxp127!(rx_payload_sx127x_b1, 1, true);
//@h id=rx_payload_sx127x_b12 props=C18 tier=quick build=phy cost=20 timeout=900
//@bounds caller buffer of 12 bytes, explicit header
rxp127!(rx_payload_sx127x_b12, 12, false);
//@h id=rx_payload_sx127x_b64 props=C18 tier=quick build=phy cost=30 timeout=900
//@bounds caller buffer of 64 bytes, explicit header
rxp127!(rx_payload_sx127x_b64, 64, false);
//@h id=rx_payload_sx127x_b255 props=C18 tier=quick build=phy cost=30 timeout=900
//@bounds caller buffer of 255 bytes, implicit header
rxp127!(rx_payload_sx127x_b255, 255, true);
//@h id=rx_payload_sx127x_b256 props=C18 tier=quick build=phy cost=30 timeout=900
//@bounds caller buffer of 256 bytes, explicit header
rxp127!(rx_payload_sx127x_b256, 256, false);

// ---- C15 on the chip's register file: the LDRO bit the chip is left with ------------------------

fn any_packet_params() -> PacketParams {
    PacketParams { preamble_length: kani::any(), implicit_header: kani::any(), payload_length: kani::any(), crc_on: kani::any(), iq_inverted: kani::any() }
}

/// modulation parameters then packet parameters (LoRa::prepare_for_tx / prepare_for_rx), or the
/// other way round (LoRa::continuous_wave), from arbitrary prior register contents.  The flag
/// handed to the driver is the one create_modulation_params computes (its equality with the rule
/// is ldro_rule_*): what is checked here is the bit the chip is left with.
fn ldro_programmed<C: Sx127xVariant>(mut r: Sx127x<RegSpi, MockIv, C>, reg: usize, mask: u8, packet_first: bool) {
    let (sf, bw, cr) = (any_sf(), any_bw(), any_cr());
    kani::assume(C::bandwidth_value(bw).is_ok() && sf != SpreadingFactor::_5);
    let ldro: bool = kani::any();
    let mp = ModulationParams { spreading_factor: sf, bandwidth: bw, coding_rate: cr, low_data_rate_optimize: ldro as u8, frequency_in_hz: kani::any() };
    let pp = any_packet_params();
    if packet_first {
        kani::assert(block_on(r.set_packet_params(&pp)).is_ok(), "C15: fault-free bus");
    }
    kani::assert(block_on(r.set_modulation_params(&mp)).is_ok(), "C15: fault-free bus");
    if !packet_first {
        kani::assert(block_on(r.set_packet_params(&pp)).is_ok(), "C15: fault-free bus");
    }
    kani::assert(!rf().bad, "C15: only well-formed register accesses");
    kani::assert((rf().get(reg) & mask != 0) == ldro, "C15: the LowDataRateOptimize bit the chip is left with after modulation and packet parameters differs from the decision (2^SF/BW >= 16.38 ms)");
    kani::cover!(ldro, "LDRO on");
}

fn regradio_1276() -> Sx127x<RegSpi, MockIv, Sx1276> {
    Sx127x::new(RegSpi::new(), MockIv::new(), Config { chip: Sx1276, tcxo_used: false, tx_boost: kani::any(), rx_boost: kani::any() })
}
fn regradio_1272() -> Sx127x<RegSpi, MockIv, Sx1272> {
    Sx127x::new(RegSpi::new(), MockIv::new(), Config { chip: Sx1272, tcxo_used: false, tx_boost: kani::any(), rx_boost: kani::any() })
}

/// (a) set_modulation_params from arbitrary register contents leaves the LDRO bit equal to the
/// decision; bandwidth concrete (it selects the errata 2.3 branch of the SX1276), SF/CR symbolic
fn ldro_after_modulation<C: Sx127xVariant>(mut r: Sx127x<RegSpi, MockIv, C>, reg: usize, mask: u8, bw: Bandwidth) {
    let (sf, cr) = (any_sf(), any_cr());
    kani::assume(sf != SpreadingFactor::_5);
    let ldro: bool = kani::any();
    let mp = ModulationParams { spreading_factor: sf, bandwidth: bw, coding_rate: cr, low_data_rate_optimize: ldro as u8, frequency_in_hz: kani::any() };
    kani::assert(block_on(r.set_modulation_params(&mp)).is_ok(), "C15: fault-free bus");
    kani::assert(!rf().bad, "C15: only well-formed register accesses");
    kani::assert((rf().get(reg) & mask != 0) == ldro, "C15: the LowDataRateOptimize bit programmed by set_modulation_params differs from the decision");
    kani::cover!(ldro, "LDRO on");
}
/// (b) set_packet_params from arbitrary register contents does not touch the LDRO bit; with (a)
/// this gives the bit after prepare_for_tx / prepare_for_rx (modulation, then packet parameters)
fn ldro_kept_by_packet_params<C: Sx127xVariant>(mut r: Sx127x<RegSpi, MockIv, C>, reg: usize, mask: u8) {
    let pp = any_packet_params();
    kani::assert(block_on(r.set_packet_params(&pp)).is_ok(), "C15: fault-free bus");
    kani::assert(!rf().bad, "C15: only well-formed register accesses");
    kani::assert(rf().get(reg) & mask == rf().init(reg) & mask, "C15: set_packet_params changes the LowDataRateOptimize bit programmed by set_modulation_params");
}

//@h id=ldro_after_modulation_sx1276_bw125 props=C15 tier=thorough build=phy cost=300 timeout=1800
//@bounds SX1276 register-file model, arbitrary prior register contents, SF6..12, any CR, LDRO decision symbolic, any frequency, BW 125 kHz (errata 2.3 branch for 62.5..250 kHz): RegModemConfig3 bit 3 after set_modulation_params equals the decision
//@encodes Sx127x::set_modulation_params, Sx1276::set_modulation_params
#[kani::proof]
#[kani::unwind(26)]
fn ldro_after_modulation_sx1276_bw125() {
    ldro_after_modulation(regradio_1276(), 0x26, 0x08, Bandwidth::_125KHz);
}
//@h id=ldro_bit_sx1276 props=C15 tier=quick build=phy cost=300 timeout=1800
//@bounds SX1276 chip-specific half of set_modulation_params called directly (Sx1276::set_modulation_params; the chip-independent prefix in Sx127x::set_modulation_params writes RegDetectionOptimize/RegDetectionThreshold only and is part of the thorough ldro_after_modulation_* harnesses), register-file model, arbitrary prior register contents, SF6..12, any CR, any frequency, BW 125 kHz, LDRO decision symbolic: RegModemConfig3 bit 3 equals the decision
//@encodes Sx1276::set_modulation_params
#[kani::proof]
#[kani::unwind(26)]
fn ldro_bit_sx1276() {
    let mut r = regradio_1276();
    let (sf, cr) = (any_sf(), any_cr());
    kani::assume(sf != SpreadingFactor::_5);
    let ldro: bool = kani::any();
    let mp = ModulationParams { spreading_factor: sf, bandwidth: Bandwidth::_125KHz, coding_rate: cr, low_data_rate_optimize: ldro as u8, frequency_in_hz: kani::any() };
    kani::assert(block_on(Sx1276::set_modulation_params(&mut r, &mp)).is_ok(), "C15: fault-free bus");
    kani::assert(!rf().bad, "C15: only well-formed register accesses");
    kani::assert((rf().get(0x26) & 0x08 != 0) == ldro, "C15: the LowDataRateOptimize bit programmed by set_modulation_params differs from the decision");
    kani::cover!(ldro, "LDRO on");
}
//@h id=ldro_after_modulation_sx1276_bw500 props=C15 tier=thorough build=phy cost=300 timeout=1800
//@bounds as ldro_after_modulation_sx1276_bw125 with BW 500 kHz (AutomaticIFOn branch)
#[kani::proof]
#[kani::unwind(26)]
fn ldro_after_modulation_sx1276_bw500() {
    ldro_after_modulation(regradio_1276(), 0x26, 0x08, Bandwidth::_500KHz);
}
//@h id=ldro_after_modulation_sx1276_bw7 props=C15 tier=thorough build=phy cost=300 timeout=1800
//@bounds as ldro_after_modulation_sx1276_bw125 with BW 7.8 kHz (no errata writes below 62.5 kHz)
#[kani::proof]
#[kani::unwind(26)]
fn ldro_after_modulation_sx1276_bw7() {
    ldro_after_modulation(regradio_1276(), 0x26, 0x08, Bandwidth::_7KHz);
}
//@h id=ldro_kept_by_packet_params_sx1276 props=C15 tier=quick build=phy cost=200 timeout=1800
//@bounds SX1276 register-file model, arbitrary prior register contents, any packet parameters: RegModemConfig3 bit 3 unchanged by set_packet_params
//@encodes Sx127x::set_packet_params, Sx1276::set_packet_params
#[kani::proof]
#[kani::unwind(26)]
fn ldro_kept_by_packet_params_sx1276() {
    ldro_kept_by_packet_params(regradio_1276(), 0x26, 0x08);
}
//@h id=ldro_kept_by_packet_params_sx1272 props=C15 tier=quick build=phy cost=200 timeout=1800
//@bounds SX1272: RegModemConfig1 bit 0 unchanged by set_packet_params
//@encodes Sx127x::set_packet_params, Sx1272::set_packet_params
#[kani::proof]
#[kani::unwind(26)]
fn ldro_kept_by_packet_params_sx1272() {
    ldro_kept_by_packet_params(regradio_1272(), 0x1D, 0x01);
}
//@h id=ldro_programmed_sx1276 props=C15 tier=thorough build=phy cost=2400 timeout=5400
//@bounds SX1276 end to end (not compositional): every SF6..12 x BW x CR, LDRO decision symbolic, any packet parameters, set_modulation_params then set_packet_params
//@encodes Sx127x::set_modulation_params, set_packet_params, Sx1276::{set_modulation_params, set_packet_params}
#[kani::proof]
#[kani::unwind(26)]
fn ldro_programmed_sx1276() {
    ldro_programmed(regradio_1276(), 0x26, 0x08, false);
}
//@h id=ldro_programmed_sx1272 props=C15 tier=thorough build=phy cost=300 timeout=1800
//@bounds SX1272, as ldro_programmed_sx1276: RegModemConfig1 bit 0 (BW 125/250/500 kHz)
//@encodes Sx1272::{set_modulation_params, set_packet_params}
#[kani::proof]
#[kani::unwind(26)]
fn ldro_programmed_sx1272() {
    ldro_programmed(regradio_1272(), 0x1D, 0x01, false);
}
//@h id=ldro_programmed_sx1276_pkt_first props=C15 tier=thorough build=phy cost=300 timeout=1800
//@bounds as ldro_programmed_sx1276 with set_packet_params before set_modulation_params (LoRa::continuous_wave)
#[kani::proof]
#[kani::unwind(26)]
fn ldro_programmed_sx1276_pkt_first() {
    ldro_programmed(regradio_1276(), 0x26, 0x08, true);
}
//@h id=ldro_programmed_sx1272_pkt_first props=C15 tier=thorough build=phy cost=300 timeout=1800
//@bounds as ldro_programmed_sx1272 with set_packet_params before set_modulation_params
#[kani::proof]
#[kani::unwind(26)]
fn ldro_programmed_sx1272_pkt_first() {
    ldro_programmed(regradio_1272(), 0x1D, 0x01, true);
}
