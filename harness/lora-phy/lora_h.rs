//@file anchor=lora-phy/src/lib.rs
// C14: one public LoRa<ModelChip, _> API call from an arbitrary driver/chip state coupled by the
// invariant I-phy, with a fault at a symbolic chip-call index and a symbolic IRQ script.
use super::*;
use crate::verif_kani_lora_phy_mock::{block_on, MockDelay, Uq};

#[derive(Clone, Copy, PartialEq, Eq)]
pub(crate) enum ChipMode {
    Sleep,
    Standby,
    Tx,
    Rx,
    Cad,
}

/// Trait-level chip model (DESIGN 2.4).  State lives in a static (R4).
pub(crate) struct Chip {
    pub mode: ChipMode,
    /// receive duty cycle: the chip may be in its sleep phase
    pub duty_sleeping: bool,
    // programmed since the last cold start / reset
    pub init: bool,     // packet type, sync word, regulator/TCXO, buffer bases (init_lora)
    pub txpower: bool,  // PA config / ramp
    pub irq: bool,      // IRQ mask / DIO mapping
    pub modulation: bool,
    pub packet: bool,
    pub freq: bool,
    pub payload: bool,
    // ghost verdict flags
    pub asleep_cmd: bool, // a command other than the wake-up reached the chip while it slept
    pub dep_missing: bool, // TX/RX/CAD started with something it depends on not programmed
    // environment
    pub calls: usize,
    pub fail_at: usize,
    /// a second, independent fault position (a fault while recovering from the first)
    pub fail_at2: usize,
    pub irq_script: [u8; 3], // 0: Ok(None) 1: Ok(Some(PreambleReceived)) 2: Ok(Some(Done)) 3..: Err(timeout)
    pub irq_pos: usize,
    pub rx_continuous: bool,
    /// the call under test is LoRa::listen (RSSI measurement without packet reception)
    pub listen_only: bool,
    /// last packet fetched from the chip: length, and the byte delivered at the watched index
    /// rx_k (an index chosen by the harness: universally quantified by the solver, R5)
    pub rx_n: u8,
    pub rx_k: usize,
    pub rx_byte: u8,
    pub rx_fetched: bool,
}
pub(crate) static mut CHIP: Uq<Chip> = Uq { magic: 0x6C72760032E6EFE0, v: Chip {
    mode: ChipMode::Sleep, duty_sleeping: false, init: false, txpower: false, irq: false, modulation: false,
    packet: false, freq: false, payload: false, asleep_cmd: false, dep_missing: false, calls: 0,
    fail_at: usize::MAX, fail_at2: usize::MAX, irq_script: [2; 3], irq_pos: 0, rx_continuous: false, listen_only: false,
    rx_n: 0, rx_k: 0, rx_byte: 0, rx_fetched: false,
} };
pub(crate) fn chip() -> &'static mut Chip {
    unsafe { &mut *core::ptr::addr_of_mut!(CHIP.v) }
}

pub(crate) struct ModelChip;

impl ModelChip {
    /// every chip command: fault injection, then "awake?" bookkeeping
    fn cmd(&mut self) -> Result<(), RadioError> {
        let c = chip();
        let k = c.calls;
        c.calls += 1;
        if k == c.fail_at || k == c.fail_at2 {
            return Err(RadioError::SPI);
        }
        if c.mode == ChipMode::Sleep || c.duty_sleeping {
            c.asleep_cmd = true;
        }
        Ok(())
    }
    fn lose_config(c: &mut Chip) {
        c.init = false;
        c.txpower = false;
        c.irq = false;
        c.modulation = false;
        c.packet = false;
        c.freq = false;
        c.payload = false;
    }
}

impl RadioKind for ModelChip {
    async fn init_lora(&mut self, _sync_word: u16) -> Result<(), RadioError> {
        self.cmd()?;
        chip().init = true;
        Ok(())
    }
    async fn set_lora_sync_word(&mut self, _sync_word: u16) -> Result<(), RadioError> {
        self.cmd()
    }
    fn create_modulation_params(&self, sf: SpreadingFactor, bw: Bandwidth, cr: CodingRate, f: u32) -> Result<ModulationParams, RadioError> {
        Ok(ModulationParams { spreading_factor: sf, bandwidth: bw, coding_rate: cr, low_data_rate_optimize: 0, frequency_in_hz: f })
    }
    fn create_packet_params(&self, preamble_length: u16, implicit_header: bool, payload_length: u8, crc_on: bool, iq_inverted: bool, _m: &ModulationParams) -> Result<PacketParams, RadioError> {
        Ok(PacketParams { preamble_length, implicit_header, payload_length, crc_on, iq_inverted })
    }
    async fn reset(&mut self, _delay: &mut impl DelayNs) -> Result<(), RadioError> {
        let c = chip();
        let k = c.calls;
        c.calls += 1;
        if k == c.fail_at || k == c.fail_at2 {
            return Err(RadioError::Reset);
        }
        c.mode = ChipMode::Standby;
        c.duty_sleeping = false;
        Self::lose_config(c);
        Ok(())
    }
    async fn ensure_ready(&mut self, mode: RadioMode) -> Result<(), RadioError> {
        let c = chip();
        let k = c.calls;
        c.calls += 1;
        if k == c.fail_at || k == c.fail_at2 {
            return Err(RadioError::Busy);
        }
        match mode {
            RadioMode::Sleep | RadioMode::Receive(RxMode::DutyCycle(_)) => {
                // wake-up transaction
                if c.mode == ChipMode::Sleep {
                    c.mode = ChipMode::Standby;
                }
                c.duty_sleeping = false;
            }
            _ => {} // only waits for BUSY: does not wake a sleeping chip
        }
        Ok(())
    }
    async fn set_standby(&mut self) -> Result<(), RadioError> {
        self.cmd()?;
        let c = chip();
        if c.mode != ChipMode::Sleep {
            c.mode = ChipMode::Standby;
            c.duty_sleeping = false;
        }
        Ok(())
    }
    async fn set_sleep(&mut self, warm_start_if_possible: bool, _delay: &mut impl DelayNs) -> Result<(), RadioError> {
        self.cmd()?;
        let c = chip();
        c.mode = ChipMode::Sleep;
        if !warm_start_if_possible {
            Self::lose_config(c);
        }
        Ok(())
    }
    async fn set_tx_rx_buffer_base_address(&mut self, _t: usize, _r: usize) -> Result<(), RadioError> {
        self.cmd()
    }
    async fn set_tx_power_and_ramp_time(&mut self, _p: i32, _m: Option<&ModulationParams>, _prep: bool) -> Result<(), RadioError> {
        self.cmd()?;
        chip().txpower = true;
        Ok(())
    }
    async fn set_modulation_params(&mut self, _m: &ModulationParams) -> Result<(), RadioError> {
        self.cmd()?;
        chip().modulation = true;
        Ok(())
    }
    async fn set_packet_params(&mut self, _p: &PacketParams) -> Result<(), RadioError> {
        self.cmd()?;
        chip().packet = true;
        Ok(())
    }
    async fn calibrate_image(&mut self, _f: u32) -> Result<(), RadioError> {
        self.cmd()
    }
    async fn set_channel(&mut self, _f: u32) -> Result<(), RadioError> {
        self.cmd()?;
        chip().freq = true;
        Ok(())
    }
    async fn set_payload(&mut self, _p: &[u8]) -> Result<(), RadioError> {
        self.cmd()?;
        chip().payload = true;
        Ok(())
    }
    async fn do_tx(&mut self) -> Result<(), RadioError> {
        self.cmd()?;
        let c = chip();
        if !(c.init && c.txpower && c.irq && c.modulation && c.packet && c.freq && c.payload) {
            c.dep_missing = true;
        }
        if c.mode != ChipMode::Sleep {
            c.mode = ChipMode::Tx;
        }
        Ok(())
    }
    async fn do_rx(&mut self, rx_mode: RxMode) -> Result<(), RadioError> {
        self.cmd()?;
        let c = chip();
        let deps = if c.listen_only { c.init && c.modulation && c.freq } else { c.init && c.irq && c.modulation && c.packet && c.freq };
        if !deps {
            c.dep_missing = true;
        }
        if c.mode != ChipMode::Sleep {
            c.mode = ChipMode::Rx;
            c.rx_continuous = matches!(rx_mode, RxMode::Continuous);
            c.duty_sleeping = matches!(rx_mode, RxMode::DutyCycle(_)) && kani::any();
        }
        Ok(())
    }
    async fn get_rx_payload(&mut self, _p: &PacketParams, b: &mut [u8]) -> Result<u8, RadioError> {
        self.cmd()?;
        let n: u8 = kani::any();
        // contract of the chip drivers' get_rx_payload (decided by the C18 rx_payload_* harnesses on
        // the real Sx126x / Sx127x code): Ok(n) => n <= buffer length, bytes [..n] written, rest untouched
        kani::assume(n as usize <= b.len());
        let c = chip();
        c.rx_n = n;
        c.rx_fetched = true;
        if c.rx_k < n as usize {
            let v: u8 = kani::any();
            b[c.rx_k] = v;
            c.rx_byte = v;
        }
        Ok(n)
    }
    async fn get_rx_packet_status(&mut self) -> Result<PacketStatus, RadioError> {
        self.cmd()?;
        Ok(PacketStatus { rssi: kani::any(), snr: kani::any() })
    }
    async fn get_rssi(&mut self) -> Result<i16, RadioError> {
        self.cmd()?;
        Ok(kani::any())
    }
    async fn do_cad(&mut self, _m: &ModulationParams) -> Result<(), RadioError> {
        self.cmd()?;
        let c = chip();
        if !(c.init && c.irq && c.modulation && c.freq) {
            c.dep_missing = true;
        }
        if c.mode != ChipMode::Sleep {
            c.mode = ChipMode::Cad;
        }
        Ok(())
    }
    async fn set_irq_params(&mut self, _m: Option<RadioMode>) -> Result<(), RadioError> {
        self.cmd()?;
        chip().irq = true;
        Ok(())
    }
    async fn set_tx_continuous_wave_mode(&mut self) -> Result<(), RadioError> {
        self.cmd()?;
        let c = chip();
        if c.mode != ChipMode::Sleep {
            c.mode = ChipMode::Tx;
        }
        Ok(())
    }
    async fn await_irq(&mut self) -> Result<(), RadioError> {
        let c = chip();
        let k = c.calls;
        c.calls += 1;
        if k == c.fail_at || k == c.fail_at2 { Err(RadioError::Irq) } else { Ok(()) }
    }
    async fn process_irq_event(&mut self, _mode: RadioMode, cad: Option<&mut bool>, _clear: bool) -> Result<Option<IrqState>, RadioError> {
        // IRQ processing follows an interrupt from the chip: it is not in a duty-cycle sleep phase then
        chip().duty_sleeping = false;
        self.cmd()?;
        let c = chip();
        // beyond the script the operation completes (bounds the polling loops of tx / complete_rx)
        let ev = if c.irq_pos < 3 { c.irq_script[c.irq_pos] } else { 2 };
        c.irq_pos += 1;
        // TxDone / RxDone (single, duty cycle) / CadDone / a timeout return the chip to standby on
        // its own (SX126x: STDBY_RC; SX127x: standby after single RX / TX); continuous RX stays in RX
        let completes = ev >= 2 || (ev == 1 && c.mode != ChipMode::Rx);
        if completes && c.mode != ChipMode::Sleep && !(c.mode == ChipMode::Rx && c.rx_continuous) {
            c.mode = ChipMode::Standby;
            c.duty_sleeping = false;
        }
        match ev {
            0 => Ok(None),
            1 => if c.mode == ChipMode::Rx { Ok(Some(IrqState::PreambleReceived)) } else { Ok(Some(IrqState::Done)) },
            2 => {
                if let Some(f) = cad {
                    *f = kani::any();
                }
                Ok(Some(IrqState::Done))
            }
            _ => Err(RadioError::ReceiveTimeout),
        }
    }
    async fn get_irq_state(&mut self, _mode: RadioMode, _cad: Option<&mut bool>) -> Result<Option<IrqState>, RadioError> {
        chip().duty_sleeping = false;
        self.cmd()?;
        Ok(None)
    }
    async fn clear_irq_status(&mut self) -> Result<(), RadioError> {
        self.cmd()
    }
}

pub(crate) fn any_rx_mode() -> RxMode {
    let k: u8 = kani::any();
    match k % 3 {
        0 => RxMode::Single(kani::any()),
        1 => RxMode::Continuous,
        _ => RxMode::DutyCycle(DutyCycleParams { rx_time: kani::any(), sleep_time: kani::any() }),
    }
}
pub(crate) fn any_mode() -> RadioMode {
    let k: u8 = kani::any();
    match k % 7 {
        0 => RadioMode::Sleep,
        1 => RadioMode::Standby,
        2 => RadioMode::FrequencySynthesis,
        3 => RadioMode::Transmit,
        4 => RadioMode::Receive(any_rx_mode()),
        5 => RadioMode::Listen,
        _ => RadioMode::ChannelActivityDetection,
    }
}

/// arbitrary driver + chip state coupled by I-phy:
///   chip asleep                         => driver mode is Sleep
///   chip in a duty-cycle sleep phase    => driver mode is Receive(DutyCycle)
///   driver mode Standby                 => chip in standby
///   !cold_start                         => init_lora, PA/ramp and IRQ setup done since the last cold start
pub(crate) fn any_coupled() -> LoRa<ModelChip, MockDelay> {
    let c = chip();
    let m: u8 = kani::any();
    c.mode = match m % 5 { 0 => ChipMode::Sleep, 1 => ChipMode::Standby, 2 => ChipMode::Tx, 3 => ChipMode::Rx, _ => ChipMode::Cad };
    c.duty_sleeping = kani::any();
    c.init = kani::any(); c.txpower = kani::any(); c.irq = kani::any(); c.modulation = kani::any();
    c.packet = kani::any(); c.freq = kani::any(); c.payload = kani::any();
    c.asleep_cmd = false;
    c.dep_missing = false;
    c.calls = 0;
    c.fail_at = kani::any();
    c.fail_at2 = kani::any();
    c.irq_script = kani::any();
    c.irq_pos = 0;
    c.rx_continuous = kani::any();
    c.listen_only = false;
    c.rx_n = 0; c.rx_k = kani::any(); c.rx_byte = 0; c.rx_fetched = false;
    let lora = LoRa { radio_kind: ModelChip, delay: MockDelay, radio_mode: any_mode(), sync_word: kani::any(), cold_start: kani::any(), calibrate_image: kani::any() };
    kani::assume(inv(&lora));
    lora
}

pub(crate) fn inv(l: &LoRa<ModelChip, MockDelay>) -> bool {
    let c = chip();
    let asleep = c.mode == ChipMode::Sleep;
    let drv_sleep = l.radio_mode == RadioMode::Sleep;
    // (driver Sleep while the chip is awake is harmless -- the driver wakes it again -- and is
    // what a fault between the wake-up and the next mode change leaves behind)
    (!asleep || drv_sleep)
        && (!c.duty_sleeping || (c.mode == ChipMode::Rx && matches!(l.radio_mode, RadioMode::Receive(RxMode::DutyCycle(_)))))
        && (l.radio_mode != RadioMode::Standby || c.mode == ChipMode::Standby)
        && (l.cold_start || (c.init && c.txpower && c.irq))
        // a prepared operation has programmed everything it depends on (set by prepare_for_*),
        // whether or not a cold start is recorded as pending: a fault may separate the flag from
        // the mode (init() sets the flag before the reset it then fails to perform)
        && (l.radio_mode != RadioMode::Transmit || (c.init && c.txpower && c.irq && c.modulation && c.packet && c.freq && c.payload))
        && (!matches!(l.radio_mode, RadioMode::Receive(_)) || (c.init && c.irq && c.modulation && c.packet && c.freq))
        && (l.radio_mode != RadioMode::ChannelActivityDetection || (c.init && c.irq && c.modulation && c.freq))
}

pub(crate) fn any_mp() -> ModulationParams {
    ModulationParams { spreading_factor: SpreadingFactor::_7, bandwidth: Bandwidth::_125KHz, coding_rate: CodingRate::_4_5, low_data_rate_optimize: 0, frequency_in_hz: kani::any() }
}
pub(crate) fn any_pp() -> PacketParams {
    PacketParams { preamble_length: kani::any(), implicit_header: kani::any(), payload_length: kani::any(), crc_on: kani::any(), iq_inverted: kani::any() }
}

pub(crate) fn faulted() -> bool {
    let c = chip();
    c.fail_at < c.calls || c.fail_at2 < c.calls
}

/// common post-conditions of every API call
pub(crate) fn post(l: &LoRa<ModelChip, MockDelay>, name: &'static str) {
    let c = chip();
    kani::assert(!c.asleep_cmd, "C14: the chip was commanded while asleep without being woken first");
    kani::assert(!c.dep_missing, "C14: a transmission/reception/CAD was started although something it depends on has not been programmed since the last cold start");
    // the invariant is inductive over histories WITH faults: it must survive a call that failed
    // (up to two faults per call), otherwise the states after a fault would not be covered by the
    // other harnesses' start states
    kani::assert(inv(l), "C14: driver and chip state disagree after the call (invariant I-phy)");

    let _ = name;
}

pub(crate) fn wrong_mode_refused<T>(r: &Result<T, RadioError>, calls_before: usize) {
    kani::assert(matches!(r, Err(RadioError::InvalidRadioMode)), "C14: an operation invoked in the wrong mode must be refused with InvalidRadioMode");
    kani::assert(chip().calls == calls_before, "C14: a refused operation must not command the chip");
}

macro_rules! op {
    ($name:ident, $l:ident, $body:block) => {
        #[kani::proof]
        #[kani::unwind(8)]
        fn $name() {
            let mut $l = any_coupled();
            $body;
            post(&$l, stringify!($name));
        }
    };
}

//@h id=api_init props=C14 tier=quick build=phy cost=30 timeout=900
//@bounds LoRa::init from every coupled state, fault at any chip-call index
//@encodes LoRa::init, do_cold_start
op!(api_init, l, {
    let r = block_on(l.init());
    if r.is_ok() {
        let c = chip();
        kani::assert(c.init && c.txpower && c.irq && !l.cold_start && l.radio_mode == RadioMode::Standby && c.mode == ChipMode::Standby, "C14: after init everything a cold start loses is programmed again and the chip is in standby");
    }
});
//@h id=api_sleep props=C14 tier=quick build=phy cost=30 timeout=900
//@bounds LoRa::sleep(warm|cold) from every coupled state, fault at any index
//@encodes LoRa::sleep
op!(api_sleep, l, {
    let warm: bool = kani::any();
    let was_asleep = l.radio_mode == RadioMode::Sleep;
    let r = block_on(l.sleep(warm));
    if r.is_ok() {
        // (a driver that already records Sleep does nothing; after a fault the chip may in fact be
        // awake in that state, which the next wake-up absorbs)
        kani::assert(l.radio_mode == RadioMode::Sleep && (was_asleep || chip().mode == ChipMode::Sleep), "C14: sleep puts chip and driver to sleep");
        kani::assert(warm || was_asleep || l.cold_start, "C14: a cold sleep is remembered so that everything is programmed again");
    }
});
//@h id=api_prepare_for_tx props=C14 tier=quick build=phy cost=60 timeout=900
//@bounds LoRa::prepare_for_tx from every coupled state, any power, payload length 0..=8, fault at any index
//@encodes LoRa::prepare_for_tx, prepare_modem, do_cold_start
op!(api_prepare_for_tx, l, {
    let mp = any_mp();
    let mut pp = any_pp();
    let buf = [0u8; 8];
    let n: usize = kani::any();
    kani::assume(n <= 8);
    let r = block_on(l.prepare_for_tx(&mp, &mut pp, kani::any(), &buf[..n]));
    if r.is_ok() {
        let c = chip();
        kani::assert(l.radio_mode == RadioMode::Transmit && c.init && c.txpower && c.irq && c.modulation && c.packet && c.freq && c.payload, "C14: prepare_for_tx programs everything a transmission depends on");
    }
});
//@h id=api_tx props=C14 tier=quick build=phy cost=60 timeout=900
//@bounds LoRa::tx from every coupled state, IRQ script of 3 arbitrary outcomes (none / preamble / done / timeout), fault at any index
//@encodes LoRa::tx, wait_for_irq
op!(api_tx, l, {
    let before = chip().calls;
    let was_tx = l.radio_mode == RadioMode::Transmit;
    let r = block_on(l.tx());
    if !was_tx {
        wrong_mode_refused(&r, before);
    } else if r.is_err() && !faulted() {
        kani::assert(chip().mode == ChipMode::Standby && l.radio_mode == RadioMode::Standby, "C14: after a failed or timed-out transmission the chip is in standby and the driver knows it");
    }
    kani::cover!(r.is_ok(), "transmission completed");
});
//@h id=api_prepare_for_rx props=C14 tier=quick build=phy cost=60 timeout=900
//@bounds LoRa::prepare_for_rx(single|continuous|duty cycle) from every coupled state, fault at any index
//@encodes LoRa::prepare_for_rx
op!(api_prepare_for_rx, l, {
    let mp = any_mp();
    let pp = any_pp();
    let r = block_on(l.prepare_for_rx(any_rx_mode(), &mp, &pp));
    if r.is_ok() {
        let c = chip();
        kani::assert(matches!(l.radio_mode, RadioMode::Receive(_)) && c.init && c.irq && c.modulation && c.packet && c.freq, "C14: prepare_for_rx programs everything a reception depends on");
    }
});
//@h id=api_start_rx props=C14 tier=quick build=phy cost=30 timeout=900
//@bounds LoRa::start_rx from every coupled state
//@encodes LoRa::start_rx
op!(api_start_rx, l, {
    let before = chip().calls;
    let was_rx = matches!(l.radio_mode, RadioMode::Receive(_));
    let r = block_on(l.start_rx());
    if !was_rx {
        wrong_mode_refused(&r, before);
    }
});
//@h id=api_complete_rx props=C14 tier=quick build=phy cost=90 timeout=900
//@bounds LoRa::complete_rx from every coupled state, IRQ script of 3 outcomes, fault at any index, 16-byte buffer
//@encodes LoRa::complete_rx
op!(api_complete_rx, l, {
    let before = chip().calls;
    let mode0 = l.radio_mode;
    let pp = any_pp();
    let mut buf = [0u8; 16];
    let r = block_on(l.complete_rx(&pp, &mut buf));
    if !matches!(mode0, RadioMode::Receive(_)) {
        wrong_mode_refused(&r, before);
    } else if r.is_err() && !faulted() && mode0 != RadioMode::Receive(RxMode::Continuous) {
        kani::assert(chip().mode == ChipMode::Standby && l.radio_mode == RadioMode::Standby, "C14: after a failed or timed-out reception the chip is in standby and the driver knows it");
    }
});
//@h id=api_rx_switch_channel props=C14 tier=quick build=phy cost=30 timeout=900
//@bounds LoRa::rx_switch_channel from every coupled state (incl. a duty-cycle sleep phase)
//@encodes LoRa::rx_switch_channel
op!(api_rx_switch_channel, l, {
    let before = chip().calls;
    let was_rx = matches!(l.radio_mode, RadioMode::Receive(_));
    let r = block_on(l.rx_switch_channel(kani::any()));
    if !was_rx {
        wrong_mode_refused(&r, before);
    }
});
//@h id=api_listen props=C14 tier=quick build=phy cost=60 timeout=900
//@bounds LoRa::listen from every coupled state
//@encodes LoRa::listen
op!(api_listen, l, {
    chip().listen_only = true;
    let _ = block_on(l.listen(kani::any(), Bandwidth::_125KHz));
});
//@h id=api_prepare_for_cad props=C14 tier=quick build=phy cost=60 timeout=900
//@bounds LoRa::prepare_for_cad from every coupled state
//@encodes LoRa::prepare_for_cad
op!(api_prepare_for_cad, l, {
    let mp = any_mp();
    let r = block_on(l.prepare_for_cad(&mp));
    if r.is_ok() {
        let c = chip();
        kani::assert(l.radio_mode == RadioMode::ChannelActivityDetection && c.init && c.irq && c.modulation && c.freq, "C14: prepare_for_cad programs everything CAD depends on");
    }
});
//@h id=api_cad props=C14 tier=quick build=phy cost=60 timeout=900
//@bounds LoRa::cad from every coupled state, IRQ outcome done / timeout, fault at any index
//@encodes LoRa::cad
op!(api_cad, l, {
    let before = chip().calls;
    let was_cad = l.radio_mode == RadioMode::ChannelActivityDetection;
    // CAD completes with Done or fails: other IRQ outcomes are outside the chip's contract for CAD
    kani::assume(chip().irq_script[0] >= 1);
    let mp = any_mp();
    let r = block_on(l.cad(&mp));
    if !was_cad {
        wrong_mode_refused(&r, before);
    } else if !faulted() {
        kani::assert(chip().mode == ChipMode::Standby && l.radio_mode == RadioMode::Standby, "C14: after CAD (done, failed or timed out) the chip is in standby and the driver knows it");
    }
});
//@h id=api_set_sync_word props=C14 tier=quick build=phy cost=30 timeout=900
//@bounds LoRa::set_lora_sync_word from every coupled state
//@encodes LoRa::set_lora_sync_word
op!(api_set_sync_word, l, {
    let _ = block_on(l.set_lora_sync_word(kani::any()));
});
//@h id=api_enter_standby props=C14 tier=quick build=phy cost=30 timeout=900
//@bounds LoRa::enter_standby from every coupled state
//@encodes LoRa::enter_standby
op!(api_enter_standby, l, {
    let _ = block_on(l.enter_standby());
});
//@h id=api_rx props=C14,C18 tier=quick build=phy cost=90 timeout=900
//@bounds LoRa::rx (start_rx + complete_rx) from every coupled state, IRQ script of 3 outcomes, two fault positions, 16-byte buffer, watched byte index symbolic
//@encodes LoRa::rx, LoRa::start_rx, LoRa::complete_rx
//@assumes chip-level get_rx_payload contract (n <= buffer, bytes [..n] written, rest untouched) as decided by the rx_payload_* harnesses
op!(api_rx, l, {
    let before = chip().calls;
    let mode0 = l.radio_mode;
    let pp = any_pp();
    let buf0: [u8; 16] = kani::any();
    let mut buf = buf0;
    let r = block_on(l.rx(&pp, &mut buf));
    let c = chip();
    if !matches!(mode0, RadioMode::Receive(_)) {
        wrong_mode_refused(&r, before);
    } else if r.is_err() && !faulted() && mode0 != RadioMode::Receive(RxMode::Continuous) {
        kani::assert(c.mode == ChipMode::Standby && l.radio_mode == RadioMode::Standby, "C14: after a failed or timed-out reception the chip is in standby and the driver knows it");
    }
    if let Ok((n, _)) = r {
        kani::assert(c.rx_fetched && n == c.rx_n, "C18: the length reported by LoRa::rx is the length of the packet fetched from the chip");
        if c.rx_k < 16 {
            let want = if c.rx_k < n as usize { c.rx_byte } else { buf0[c.rx_k] };
            kani::assert(buf[c.rx_k] == want, "C18: LoRa::rx hands over exactly the fetched bytes and leaves the rest of the buffer untouched");
        }
        kani::cover!(n == 16, "full buffer received");
    } else if c.rx_k < 16 && !c.rx_fetched {
        kani::assert(buf[c.rx_k] == buf0[c.rx_k], "C18: a reception that delivered nothing leaves the buffer untouched");
    }
});
//@h id=api_get_rx_result props=C14,C18 tier=quick build=phy cost=30 timeout=900
//@bounds LoRa::get_rx_result from every coupled state, two fault positions, 16-byte buffer
//@encodes LoRa::get_rx_result
//@assumes chip-level get_rx_payload contract as above
op!(api_get_rx_result, l, {
    let before = chip().calls;
    let mode0 = l.radio_mode;
    let pp = any_pp();
    let buf0: [u8; 16] = kani::any();
    let mut buf = buf0;
    // the documented precondition: called after IrqState::Done, i.e. the chip is awake
    kani::assume(!chip().duty_sleeping);
    let r = block_on(l.get_rx_result(&pp, &mut buf));
    let c = chip();
    if !matches!(mode0, RadioMode::Receive(_)) {
        wrong_mode_refused(&r, before);
    }
    if let Ok((n, _)) = r {
        kani::assert(c.rx_fetched && n == c.rx_n, "C18: the length reported by get_rx_result is the length of the packet fetched from the chip");
        if c.rx_k < 16 {
            let want = if c.rx_k < n as usize { c.rx_byte } else { buf0[c.rx_k] };
            kani::assert(buf[c.rx_k] == want, "C18: get_rx_result hands over exactly the fetched bytes and leaves the rest untouched");
        }
    }
});
