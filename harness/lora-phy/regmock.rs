//@file anchor=lora-phy/src/lib.rs
// Register-file model of an SX127x on the SPI bus (C13 SX127x side, C15 "the bit the chip ends up
// with"): writes update a 128-entry register file (auto-increment across a burst), reads answer
// from it, the FIFO (address 0) is a byte stream, RegIrqFlags (0x12) is write-1-to-clear and kept
// out of the file.  The initial contents are arbitrary ("randomised prior register contents").
// The convention is the one of the repository's own sx127x reference tests (test/fixtures.rs).
use super::*;
use crate::verif_kani_lora_phy_mock::Uq;
use embedded_hal_async::spi::{ErrorType, Operation, SpiDevice};

pub(crate) const FIFO_HEAD: usize = 8;

/// The file is kept in banks of 64 registers: CBMC's field-sensitive SSA expands arrays of at
/// most 64 elements into one symbol per element; a 128-entry array is handled by the array theory
/// and made one register access cost 350k SAT variables.
pub(crate) struct RegFile {
    pub lo: [u8; 64],
    pub hi: [u8; 64],
    pub init_lo: [u8; 64],
    pub init_hi: [u8; 64],
    /// number of bytes written to the FIFO, its first bytes, and the byte at the universally
    /// quantified stream position `probe`
    pub fifo_n: usize,
    pub fifo_head: [u8; FIFO_HEAD],
    pub probe: usize,
    pub fifo_probe: u8,
    /// OR of everything written to RegIrqFlags (write-1-to-clear)
    pub irq_cleared: u8,
    pub n_tx: usize,
    pub bad: bool,
}
pub(crate) static mut RF: Uq<RegFile> = Uq { magic: 0x6C7276005EF11E00, v: RegFile { lo: [0; 64], hi: [0; 64], init_lo: [0; 64], init_hi: [0; 64], fifo_n: 0, fifo_head: [0; FIFO_HEAD], probe: 0, fifo_probe: 0, irq_cleared: 0, n_tx: 0, bad: false } };
impl RegFile {
    /// current value of register `a` (1..=127)
    pub(crate) fn get(&self, a: usize) -> u8 {
        if a < 64 { self.lo[a] } else { self.hi[(a - 64) & 63] }
    }
    /// value of register `a` before the operation
    pub(crate) fn init(&self, a: usize) -> u8 {
        if a < 64 { self.init_lo[a] } else { self.init_hi[(a - 64) & 63] }
    }
}
pub(crate) fn rf() -> &'static mut RegFile {
    unsafe { &mut *core::ptr::addr_of_mut!(RF.v) }
}

#[derive(Debug)]
pub(crate) struct RegErr;
impl embedded_hal_async::spi::Error for RegErr {
    fn kind(&self) -> embedded_hal_async::spi::ErrorKind {
        embedded_hal_async::spi::ErrorKind::Other
    }
}

/// informational cover over all 64 bytes (no loop: eight 64-bit words)
pub(crate) fn retain64(a: &[u8; 64]) {
    let w: [u64; 8] = unsafe { core::mem::transmute(*a) };
    let t = w[0] ^ w[1] ^ w[2] ^ w[3] ^ w[4] ^ w[5] ^ w[6] ^ w[7];
    kani::cover!(t != 0x6C72_7600_0000_0001, "info: chip contents retained for the replay");
}
pub(crate) struct RegSpi;
impl RegSpi {
    /// fresh chip with arbitrary register contents
    pub(crate) fn new() -> Self {
        let f = rf();
        f.init_lo = kani::any();
        f.init_hi = kani::any();
        // keep every drawn byte in the cone of influence of some property: the replay of a
        // counterexample is generated from the *sliced* formula (DESIGN 9.14), which drops nondet
        // values no property depends on and would leave the playback test with too few values
        retain64(&f.init_lo);
        retain64(&f.init_hi);
        f.lo = f.init_lo;
        f.hi = f.init_hi;
        f.fifo_n = 0;
        f.probe = kani::any();
        f.irq_cleared = 0;
        f.n_tx = 0;
        f.bad = false;
        RegSpi
    }
    /// concrete chip for native replays of generated harnesses: every register holds `fill`,
    /// RegOpMode says LoRa / standby (both drivers' start-up state)
    pub(crate) fn concrete(fill: u8) -> Self {
        let f = rf();
        f.init_lo = [fill; 64];
        f.init_hi = [fill; 64];
        f.init_lo[1] = 0x81;
        f.lo = f.init_lo;
        f.hi = f.init_hi;
        f.fifo_n = 0;
        f.probe = (fill as usize) % 200;
        f.irq_cleared = 0;
        f.n_tx = 0;
        f.bad = false;
        RegSpi
    }
    /// set a register's prior content (replays: make a prior-state assumption true)
    pub(crate) fn poke(addr: usize, mask: u8, val: u8) {
        let f = rf();
        let v = (f.init(addr) & !mask) | (val & mask);
        if addr < 64 { f.init_lo[addr] = v; f.lo[addr] = v; } else { f.init_hi[addr - 64] = v; f.hi[addr - 64] = v; }
    }
    fn store(addr: usize, v: u8) {
        let f = rf();
        if addr == 0x12 {
            f.irq_cleared |= v;
        } else if addr == 1 {
            // RegOpMode: LongRangeMode (bit 7) is only writable while the device is in sleep and
            // the same write keeps it there; otherwise the chip ignores bit 7 (SX1276 DS 4.1.2;
            // the reference driver writes mode-only values relying on this)
            let cur = f.lo[1];
            f.lo[1] = if cur & 7 == 0 && v & 7 == 0 { v } else { (cur & 0x80) | (v & 0x7f) };
        } else if addr >= 2 && addr < 64 {
            f.lo[addr] = v;
        } else if addr >= 64 && addr < 128 {
            f.hi[addr - 64] = v;
        } else {
            f.bad = true;
        }
    }
    fn fifo_push(v: u8) {
        let f = rf();
        if f.fifo_n < FIFO_HEAD {
            f.fifo_head[f.fifo_n] = v;
        }
        if f.fifo_n == f.probe {
            f.fifo_probe = v;
        }
        f.fifo_n += 1;
    }
}
impl ErrorType for RegSpi {
    type Error = RegErr;
}
impl SpiDevice<u8> for RegSpi {
    async fn transaction(&mut self, operations: &mut [Operation<'_, u8>]) -> Result<(), RegErr> {
        rf().n_tx += 1;
        match operations {
            // [addr | 0x80, value]: single register write (the only form the drivers use; a
            // longer burst is flagged: every extra guarded store costs as much as the access itself)
            [Operation::Write(a)] => {
                if a.len() != 2 || a[0] & 0x80 == 0 {
                    rf().bad = true;
                } else if a[0] == 0x80 {
                    Self::fifo_push(a[1]);
                } else {
                    Self::store((a[0] & 0x7f) as usize, a[1]);
                }
            }
            // [addr | 0x80] + payload: burst write (the FIFO)
            [Operation::Write(a), Operation::Write(b)] => {
                if a.len() != 1 || a[0] & 0x80 == 0 {
                    rf().bad = true;
                } else {
                    let base = (a[0] & 0x7f) as usize;
                    if base == 0 {
                        // one universally quantified stream position instead of a 255-step loop
                        let f = rf();
                        macro_rules! hd { ($i:expr) => { if $i < b.len() && f.fifo_n + $i < FIFO_HEAD { f.fifo_head[f.fifo_n + $i] = b[$i]; } }; }
                        hd!(0); hd!(1); hd!(2); hd!(3); hd!(4); hd!(5); hd!(6); hd!(7);
                        if f.probe >= f.fifo_n && f.probe - f.fifo_n < b.len() {
                            f.fifo_probe = b[f.probe - f.fifo_n];
                        }
                        f.fifo_n += b.len();
                    } else {
                        rf().bad = true; // register bursts are not used by the drivers
                    }
                }
            }
            // [addr] then read: (burst) register read
            [Operation::Write(a), Operation::Read(b)] => {
                if a.len() != 1 || a[0] & 0x80 != 0 {
                    rf().bad = true;
                } else {
                    let base = (a[0] & 0x7f) as usize;
                    let f = rf();
                    if base == 0 {
                        // FIFO read: arbitrary bytes (C18 covers the packet fetch)
                        macro_rules! rdf { ($i:expr) => { if $i < b.len() { b[$i] = kani::any(); } }; }
                        rdf!(0); rdf!(1); rdf!(2); rdf!(3);
                    } else if b.len() == 1 {
                        b[0] = f.get(base);
                    } else {
                        f.bad = true; // register bursts are not used by the drivers
                    }
                }
            }
            _ => rf().bad = true,
        }
        Ok(())
    }
}
