//@file anchor=lora-phy/src/lr1110/mod.rs
// LR11xx part of C15 (LDRO rule).
use super::*;
use crate::verif_kani_lora_phy_mock::*;

//@h id=ldro_rule_lr1110 props=C15 tier=quick build=phy cost=30 timeout=900
//@bounds all 8 SF x 10 BW x 4 CR, any frequency >= 400 MHz: decision of create_modulation_params and the LDRO byte of SetModulationParam
//@encodes Lr1110::create_modulation_params, Lr1110::set_modulation_params, lr1110 bandwidth_value/spreading_factor_value
#[kani::proof]
#[kani::unwind(26)]
fn ldro_rule_lr1110() {
    let cfg = Config { pa_selection: PaSelection::Hp, dio_as_rf_switch: None, tcxo_ctrl: None, use_dcdc: kani::any(), rx_boost: kani::any() };
    let mut r = Lr1110::new(MockSpi::new(), MockIv::new(), cfg);
    let (sf, bw, cr) = (any_sf(), any_bw(), any_cr());
    let f: u32 = kani::any();
    kani::assume(f >= 400_000_000);
    match r.create_modulation_params(sf, bw, cr, f) {
        Ok(mp) => {
            kani::cover!(mp.low_data_rate_optimize == 1, "ldro on");
            kani::assert((mp.low_data_rate_optimize != 0) == ref_ldro(sf, bw), "C15: LR11xx LDRO decision differs from 2^SF/BW >= 16.38 ms");
            let res = block_on(r.set_modulation_params(&mp));
            kani::assert(res.is_ok(), "set_modulation_params failed on a fault-free bus");
            let t = &spi().t[0];
            kani::assert(t.wlen == 6, "C15: SetModulationParam is opcode(2) + 4 parameters");
            kani::assert(t.w[5] == if ref_ldro(sf, bw) { 1 } else { 0 }, "C15: LDRO byte programmed into the LR11xx");
        }
        Err(_) => kani::assert(matches!(bw, Bandwidth::_7KHz), "C15: only 7.81 kHz is unsupported by the LR11xx"),
    }
}
