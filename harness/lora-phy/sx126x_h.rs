//@file anchor=lora-phy/src/sx126x/mod.rs
// SX126x driver-level harnesses (C15, C17, C18).
use super::*;
use crate::verif_kani_lora_phy_mock::*;

pub(crate) fn radio_1262() -> Sx126x<MockSpi, MockIv, Sx1262> {
    Sx126x::new(MockSpi::new(), MockIv::new(), Config { chip: Sx1262, tcxo_ctrl: None, use_dcdc: kani::any(), rx_boost: kani::any() })
}
pub(crate) fn radio_1261() -> Sx126x<MockSpi, MockIv, Sx1261> {
    Sx126x::new(MockSpi::new(), MockIv::new(), Config { chip: Sx1261, tcxo_ctrl: None, use_dcdc: kani::any(), rx_boost: kani::any() })
}
pub(crate) fn radio_wl(hp: bool) -> Sx126x<MockSpi, MockIv, Stm32wl> {
    Sx126x::new(MockSpi::new(), MockIv::new(), Config { chip: Stm32wl { use_high_power_pa: hp }, tcxo_ctrl: None, use_dcdc: kani::any(), rx_boost: kani::any() })
}

//@h id=ldro_rule_sx126x props=C15 tier=quick build=phy cost=30 timeout=900
//@bounds all 8 SF x 10 BW x 4 CR, any frequency >= 400 MHz: decision of create_modulation_params and byte 4 of the SetModulationParams command
//@encodes Sx126x::create_modulation_params, Sx126x::set_modulation_params, spreading_factor_value, bandwidth_value, coding_rate_value
#[kani::proof]
#[kani::unwind(12)]
fn ldro_rule_sx126x() {
    let mut r = radio_1262();
    let (sf, bw, cr) = (any_sf(), any_bw(), any_cr());
    let f: u32 = kani::any();
    kani::assume(f >= 400_000_000);
    match r.create_modulation_params(sf, bw, cr, f) {
        Ok(mp) => {
            kani::cover!(mp.low_data_rate_optimize == 1, "ldro on");
            kani::assert((mp.low_data_rate_optimize != 0) == ref_ldro(sf, bw), "C15: SX126x LDRO decision differs from 2^SF/BW >= 16.38 ms");
            kani::assert(mp.low_data_rate_optimize <= 1, "C15: LDRO flag is 0/1");
            let res = block_on(r.set_modulation_params(&mp));
            kani::assert(res.is_ok(), "set_modulation_params failed on a fault-free bus");
            let t = &spi().t[0];
            kani::assert(t.w[0] == 0x8B && t.wlen == 5, "C13/C15: SetModulationParams opcode + 4 parameters");
            kani::assert(t.w[4] == if ref_ldro(sf, bw) { 1 } else { 0 }, "C15: LDRO byte programmed into the SX126x");
        }
        Err(_) => kani::assert(false, "C15: every (SF, BW) pair is supported by the SX126x"),
    }
}
