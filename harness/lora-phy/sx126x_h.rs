//@file anchor=lora-phy/src/sx126x/mod.rs
// SX126x driver-level harnesses (C15, C17, C18).
use super::*;
use crate::verif_kani_lora_phy_mock::*;

pub(crate) fn radio_1262() -> Sx126x<MockSpi, MockIv, Sx1262> {
    Sx126x::new(MockSpi::new(), MockIv::new(), Config { chip: Sx1262, tcxo_ctrl: None, use_dcdc: kani::any(), rx_boost: kani::any() })
}
pub(crate) fn radio_1261() -> Sx126x<MockSpi, MockIv, Sx1261> {
    Sx126x::new(MockSpi::new(), MockIv::new(), Config { chip: Sx1261, tcxo_ctrl: None, use_dcdc: kani::any(), rx_boost: kani::any() })
}
pub(crate) fn radio_wl(hp: bool) -> Sx126x<MockSpi, MockIv, Stm32wl> {
    Sx126x::new(MockSpi::new(), MockIv::new(), Config { chip: Stm32wl { use_high_power_pa: hp }, tcxo_ctrl: None, use_dcdc: kani::any(), rx_boost: kani::any() })
}

// concrete radios for native replays of the generated C13 harnesses (no kani::any())
pub(crate) fn radio_1262_c(fill: u8) -> Sx126x<MockSpi, MockIv, Sx1262> {
    Sx126x::new(MockSpi::concrete(fill), MockIv::new(), Config { chip: Sx1262, tcxo_ctrl: None, use_dcdc: fill & 1 != 0, rx_boost: fill & 2 != 0 })
}
pub(crate) fn radio_1261_c(fill: u8) -> Sx126x<MockSpi, MockIv, Sx1261> {
    Sx126x::new(MockSpi::concrete(fill), MockIv::new(), Config { chip: Sx1261, tcxo_ctrl: None, use_dcdc: fill & 1 != 0, rx_boost: fill & 2 != 0 })
}
pub(crate) fn radio_wl_c(hp: bool, fill: u8) -> Sx126x<MockSpi, MockIv, Stm32wl> {
    Sx126x::new(MockSpi::concrete(fill), MockIv::new(), Config { chip: Stm32wl { use_high_power_pa: hp }, tcxo_ctrl: None, use_dcdc: fill & 1 != 0, rx_boost: fill & 2 != 0 })
}

//@h id=ldro_rule_sx126x props=C15 tier=quick build=phy cost=20 timeout=900
//@bounds all 8 SF x 10 BW x 4 CR, any frequency >= 400 MHz: LDRO decision of Sx126x::create_modulation_params
//@encodes Sx126x::create_modulation_params, spreading_factor_value, bandwidth_value, coding_rate_value
#[kani::proof]
#[kani::unwind(26)]
fn ldro_rule_sx126x() {
    let r = radio_1262();
    let (sf, bw, cr) = (any_sf(), any_bw(), any_cr());
    let f: u32 = kani::any();
    kani::assume(f >= 400_000_000);
    match r.create_modulation_params(sf, bw, cr, f) {
        Ok(mp) => {
            kani::cover!(mp.low_data_rate_optimize == 1, "ldro on");
            kani::assert((mp.low_data_rate_optimize != 0) == ref_ldro(sf, bw), "C15: SX126x LDRO decision differs from 2^SF/BW >= 16.38 ms");
            kani::assert(mp.low_data_rate_optimize <= 1, "C15: LDRO flag is 0/1");
        }
        Err(_) => kani::assert(false, "C15: every (SF, BW) pair is supported by the SX126x"),
    }
}

//@h id=ldro_bit_sx126x props=C15 tier=quick build=phy cost=60 timeout=900
//@bounds SX126x set_modulation_params with the LDRO flag symbolic (SF12/125 kHz, any CR): byte 4 of SetModulationParams equals the flag
//@encodes Sx126x::set_modulation_params
#[kani::proof]
#[kani::unwind(26)]
fn ldro_bit_sx126x() {
    let mut r = radio_1262();
    let ldro: bool = kani::any();
    let mp = ModulationParams { spreading_factor: SpreadingFactor::_12, bandwidth: Bandwidth::_125KHz, coding_rate: any_cr(), low_data_rate_optimize: ldro as u8, frequency_in_hz: 868_100_000 };
    let res = block_on(r.set_modulation_params(&mp));
    kani::assert(res.is_ok(), "set_modulation_params failed on a fault-free bus");
    let t = &spi().t[0];
    kani::assert(t.w[0] == 0x8B && t.wlen == 5, "C13/C15: SetModulationParams opcode + 4 parameters");
    kani::assert(t.w[1] == 0x0C && t.w[2] == 0x04, "C13: SF12 / 125 kHz parameter codes");
    kani::assert(t.w[4] == ldro as u8, "C15: LDRO byte programmed into the SX126x");
}

// ---- C17: PA configuration decodes to the requested power -------------------------------------
/// datasheet Table 13-21 (optimal PA settings): (paDutyCycle, hpMax, deviceSel) -> (output power
/// at the anchor SetTxParams value, anchor); lower SetTxParams values reduce the output 1:1
fn ref_pa(duty: u8, hp_max: u8, dev_sel: u8, stm32wl_hp: bool) -> Option<(i32, i32)> {
    match (duty, hp_max, dev_sel) {
        (0x04, 0x07, 0) => Some((22, 22)),
        (0x03, 0x05, 0) => Some((20, 22)),
        (0x02, 0x03, 0) => Some((17, 22)),
        // ST characterises this row for the STM32WL with SetTxParams = target power
        (0x02, 0x02, 0) => Some(if stm32wl_hp { (14, 14) } else { (14, 22) }),
        (0x06, 0x00, 1) => Some((15, 14)),
        (0x04, 0x00, 1) => Some((14, 14)),
        (0x01, 0x00, 1) => Some((10, 13)),
        _ => None,
    }
}

fn tx_power_step<C: Sx126xVariant>(mut r: Sx126x<MockSpi, MockIv, C>, hp: bool, wl: bool) {
    let req: i32 = kani::any();
    let is_prep: bool = kani::any();
    let f: u32 = kani::any();
    kani::assume(f >= 400_000_000);
    let mp = ModulationParams { spreading_factor: SpreadingFactor::_7, bandwidth: Bandwidth::_125KHz, coding_rate: CodingRate::_4_5, low_data_rate_optimize: 0, frequency_in_hz: f };
    let res = block_on(r.set_tx_power_and_ramp_time(req, Some(&mp), is_prep));
    kani::assert(res.is_ok(), "C17: setting the TX power on a fault-free bus succeeds");
    let l = spi();
    // the last two transactions are SetPaConfig and SetTxParams
    kani::assert(l.n >= 2, "C13/C17: SetPaConfig and SetTxParams are issued");
    let pa = tx(l.n - 2);
    let tp = tx(l.n - 1);
    kani::assert(pa.w[0] == 0x95 && pa.wlen == 5 && pa.w[4] == 0x01, "C13: SetPaConfig framing (paLut = 1)");
    kani::assert(tp.w[0] == 0x8E && tp.wlen == 3, "C13: SetTxParams framing");
    kani::assert(pa.w[3] == if hp { 0 } else { 1 }, "C13: deviceSel matches the PA in use");
    kani::assert(tp.w[2] == if is_prep { 0x02 } else { 0x04 }, "C13: ramp time 40 us before TX / 200 us at init");
    let (lo, hi) = if hp { (-9, 22) } else { (-17, 15) };
    let want = if req < lo { lo } else if req > hi { hi } else { req };
    match ref_pa(pa.w[1], pa.w[2], pa.w[3], wl && hp) {
        Some((pmax, anchor)) => {
            let txp = tp.w[1] as i8 as i32;
            kani::assert(txp >= if hp { -9 } else { -17 } && txp <= if hp { 22 } else { 14 }, "C17: SetTxParams power inside the range the chip accepts");
            let decoded = pmax - (anchor - txp);
            kani::assert(decoded == want, "C17: PA settings decode to the requested power clamped into the chip's range");
            kani::assert(!(req >= lo && req <= hi) || decoded <= req, "C17: never above the request inside the range");
        }
        None => kani::assert(false, "C17: SetPaConfig values are not a row of datasheet table 13-21"),
    }
    kani::cover!(req == 22, "22 dBm");
}

//@h id=tx_power_sx1262 props=C17 tier=quick build=phy cost=40 timeout=900
//@bounds every i32 power request, both ramp selections, any frequency >= 400 MHz, arbitrary TxClampCfg register content
//@encodes Sx126x::set_tx_power_and_ramp_time, set_pa_config, PaTable::lookup, SX1262_PA_TABLE
#[kani::proof]
#[kani::unwind(26)]
fn tx_power_sx1262() {
    tx_power_step(radio_1262(), true, false);
}
//@h id=tx_power_sx1261 props=C17 tier=quick build=phy cost=40 timeout=900
//@bounds every i32 power request, both ramp selections, any frequency >= 400 MHz
//@encodes Sx126x::set_tx_power_and_ramp_time, PaTable::lookup, SX1261_PA_TABLE
#[kani::proof]
#[kani::unwind(26)]
fn tx_power_sx1261() {
    tx_power_step(radio_1261(), false, false);
}
//@h id=tx_power_stm32wl_hp props=C17 tier=quick build=phy cost=40 timeout=900
//@bounds every i32 power request, STM32WL high-power PA table
//@encodes Sx126x::set_tx_power_and_ramp_time, PaTable::lookup, STM32WL_HP_PA_TABLE
#[kani::proof]
#[kani::unwind(26)]
fn tx_power_stm32wl_hp() {
    tx_power_step(radio_wl(true), true, true);
}

//@h id=symb_timeout_sx126x props=C17 tier=quick build=phy cost=40 timeout=900
//@bounds every u16 symbol count: the mantissa/exponent written by SetLoRaSymbNumTimeout decodes (mant << (2*exp+1)) to at least min(request, 248) symbols
//@encodes Sx126x::set_lora_symbol_num_timeout
#[kani::proof]
#[kani::unwind(26)]
fn symb_timeout_sx126x() {
    let mut r = radio_1262();
    let n: u16 = kani::any();
    let res = block_on(r.set_lora_symbol_num_timeout(n));
    kani::assert(res.is_ok(), "C17: fault-free bus");
    let l = spi();
    let t = &l.t[0];
    kani::assert(t.w[0] == 0xA0 && t.wlen == 2, "C13: SetLoRaSymbNumTimeout framing");
    let val = t.w[1];
    // datasheet 13.4.9: SymbNum = mant * 2^(2*exp + 1) with the register byte = mant<<3 | exp;
    // the command byte carries the symbol count directly (0..=248 after rounding to mant/exp)
    let want = if n > 248 { 248 } else { n } as u32;
    kani::assert(val as u32 >= want, "C17: symbol-count timeout shorter than requested");
    if n > 0 {
        kani::assert(l.n == 2, "C17: SynchTimeout register written for non-zero timeouts");
        let reg = l.t[1].w[3];
        let exp = (reg & 7) as u32;
        let mant = (reg >> 3) as u32;
        kani::assert(l.t[1].w[0] == 0x0D && l.t[1].w[1] == 0x07 && l.t[1].w[2] == 0x06, "C13: WriteRegister 0x0706 (SynchTimeout)");
        kani::assert(mant << (2 * exp + 1) == val as u32, "C17: mantissa/exponent encode the programmed symbol count");
    }
    kani::cover!(n == 65535, "largest request");
}

//@h id=pkt_status_sx126x props=C17 tier=quick build=phy cost=30 timeout=900
//@bounds all 2^24 raw packet status triples (and any non-error status byte): RSSI = -raw/2, SNR = raw/4 (signed) within 1 dB, no overflow
//@encodes Sx126x::get_rx_packet_status, Sx126x::get_rssi
#[kani::proof]
#[kani::unwind(26)]
fn pkt_status_sx126x() {
    let mut r = radio_1262();
    let res = block_on(r.get_rx_packet_status());
    let l = spi();
    let st = l.script[0][0];
    let (raw_rssi, raw_snr) = (l.script[0][1], l.script[0][2]);
    match res {
        Ok(ps) => {
            // datasheet 13.5.3: RssiPkt = -raw/2 dBm, SnrPkt = raw/4 dB (two's complement)
            let rssi2 = -(raw_rssi as i32); // in half dB
            kani::assert((ps.rssi as i32) * 2 <= rssi2 + 2 && (ps.rssi as i32) * 2 >= rssi2 - 2, "C17: reported RSSI within 1 dB of -raw/2");
            let snr4 = raw_snr as i8 as i32; // in quarter dB
            kani::assert((ps.snr as i32) * 4 <= snr4 + 4 && (ps.snr as i32) * 4 >= snr4 - 4, "C17: reported SNR within 1 dB of raw/4");
            kani::cover!(raw_snr == 0x7F, "largest positive raw SNR");
        }
        Err(_) => {
            kani::cover!(true, "error status");
            let _ = st;
        }
    }
}

// ---- C18: fetching a received packet never overruns the caller's buffer ------------------------
fn rx_payload_126x<const B: usize>(implicit: bool) {
    let mut r = radio_1262();
    let canary: u8 = kani::any();
    let mut buf = [canary; B];
    let pp = PacketParams { preamble_length: 8, implicit_header: implicit, payload_length: kani::any(), crc_on: true, iq_inverted: true };
    let res = block_on(r.get_rx_payload(&pp, &mut buf));
    let l = spi();
    let status = l.script[0][0];
    let (rx_len, offset) = (l.script[0][1], l.script[0][2]);
    // universally quantified buffer position (none when the buffer is empty)
    let k: usize = kani::any();
    kani::assume(B == 0 || k < B);
    let canary_ok = |buf: &[u8; B]| B == 0 || buf[k] == canary;
    match res {
        Ok(n) => {
            let n = n as usize;
            kani::assert(n <= B, "C18: returned length exceeds the caller's buffer");
            // implicit header: the configured length register (second transaction), else the reported length
            let want = if implicit { l.script[1][0] as usize } else { rx_len as usize };
            kani::assert(n == want, "C18: returned length is the length the chip reported (implicit header: the configured length)");
            let rd = tx(l.n - 1);
            kani::assert(rd.w[0] == 0x1E && rd.w[1] == offset && rd.wlen == 3, "C18: ReadBuffer at the offset the chip reported");
            kani::assert(rd.rlen == n, "C18: exactly the packet's bytes are fetched");
            if B == 0 {
                // nothing to compare
            } else if k >= n {
                kani::assert(buf[k] == canary, "C18: bytes beyond the packet must be left untouched");
            } else if n > MAXRB {
                if k == l.big_j {
                    kani::assert(buf[k] == l.big_v, "C18: packet bytes come from the chip's buffer");
                }
            } else {
                kani::assert(buf[k] == script_at(l.n - 1, k), "C18: packet bytes come from the chip's buffer");
            }
            kani::cover!(n == B && B > 0, "info: packet fills the buffer exactly");
            kani::cover!(true, "witness: a packet was fetched");
        }
        Err(e) => {
            kani::assert(canary_ok(&buf), "C18: a failed fetch must not touch the buffer");
            kani::cover!(matches!(e, RadioError::PayloadSizeMismatch(_, _)), "info: chip reports more bytes than the buffer holds");
            let _ = status;
        }
    }
}

macro_rules! rxp126 { ($name:ident, $b:expr, $imp:expr) => {
    #[kani::proof]
    #[kani::unwind(26)]
    fn $name() { rx_payload_126x::<$b>($imp) }
}; }
//@h id=rx_payload_sx126x_b0 props=C18 tier=quick build=phy cost=20 timeout=900
//@bounds caller buffer of 0 bytes, explicit header; every status byte, reported length 0..=255, offset 0..=255
//@encodes Sx126x::get_rx_payload, OpStatusErrorMask::is_error, SpiInterface::{read, read_with_status}
rxp126!(rx_payload_sx126x_b0, 0, false);
//@h id=rx_payload_sx126x_b1 props=C18 tier=quick build=phy cost=20 timeout=900
//@bounds caller buffer of 1 byte, explicit header; all reported lengths/offsets/status
rxp126!(rx_payload_sx126x_b1, 1, false);
//@h id=rx_payload_sx126x_b12 props=C18 tier=quick build=phy cost=20 timeout=900
//@bounds caller buffer of 12 bytes, implicit header (length from the PayloadLength register, any value)
rxp126!(rx_payload_sx126x_b12, 12, true);
//@h id=rx_payload_sx126x_b64 props=C18 tier=quick build=phy cost=30 timeout=900
//@bounds caller buffer of 64 bytes, explicit header
rxp126!(rx_payload_sx126x_b64, 64, false);
//@h id=rx_payload_sx126x_b255 props=C18 tier=quick build=phy cost=30 timeout=900
//@bounds caller buffer of 255 bytes, explicit header
rxp126!(rx_payload_sx126x_b255, 255, false);
//@h id=rx_payload_sx126x_b256i props=C18 tier=quick build=phy cost=30 timeout=900
//@bounds caller buffer of 256 bytes, implicit header
rxp126!(rx_payload_sx126x_b256i, 256, true);
