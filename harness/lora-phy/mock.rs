//@file anchor=lora-phy/src/lib.rs
// Environment models for lora-phy harnesses (DESIGN 2.4): sequential SPI.v log, interface variant,
// delay, one-poll executor.
use super::*;
use core::future::Future;
use core::pin::pin;
use core::task::{Context, Poll, Waker};
use embedded_hal_async::spi::{ErrorType, Operation, SpiDevice};

/// Every harness static carries a unique tag: Kani resolves a *constant* whose bytes equal a
/// static's initial bytes to that static (rustc interns allocations by content), so writing to a
/// `static mut FLAG: bool = false` silently changed constants such as `DR::_0` in the code under
/// test (found on macs_r0_linkadr2, see DESIGN 9.4).  Unique initial content rules this out.
#[repr(C)]
pub(crate) struct Uq<T> {
    pub magic: u64,
    pub v: T,
}

pub(crate) const MAXT: usize = 24; // transactions recorded
pub(crate) const MAXW: usize = 10; // bytes recorded per Write operation (head)
pub(crate) const MAXRB: usize = 12; // bytes answered per transaction from the script

/// One SPI.v transaction.  Everything is stored at positions that depend only on the operation
/// index, never on (possibly non-constant) lengths: lengths lose their constness on the way
/// through `Operation<'_, u8>` slices and would turn every later index into a symbolic one.
#[derive(Clone, Copy)]
pub(crate) struct Tx {
    /// first MAXW bytes of the first Write operation and its length
    pub w: [u8; MAXW],
    pub wlen: usize,
    /// first MAXW bytes of the second Write operation (payload) and its length
    pub p: [u8; MAXW],
    pub plen: usize,
    /// payload byte at the universally quantified index PROBE (if within the payload)
    pub probe: u8,
    /// number of operations, total number of bytes read
    pub nops: usize,
    pub rlen: usize,
}
const TX0: Tx = Tx { w: [0; MAXW], wlen: 0, p: [0; MAXW], plen: 0, probe: 0, nops: 0, rlen: 0 };

#[derive(Debug)]
pub(crate) struct SpiErr;
impl embedded_hal_async::spi::Error for SpiErr {
    fn kind(&self) -> embedded_hal_async::spi::ErrorKind {
        embedded_hal_async::spi::ErrorKind::Other
    }
}

/// Sequential SPI.v model: records what is written per transaction, answers the reads of
/// transaction k from row k of a script of arbitrary bytes, fails at transaction `fail_at`.
/// The log lives in a plain `static mut` (DESIGN R4): a by-value log inside the driver struct is
/// moved (memcpy'd) several times on construction, which made one register write cost 140k
/// symex steps / 100 s; with the static log it costs a fraction of a second.
pub(crate) struct SpiLog {
    pub t: [Tx; MAXT],
    pub n: usize,
    pub script: [[u8; MAXRB]; MAXT],
    pub fail_at: usize,
    pub probe: usize,
    /// reads longer than MAXRB bytes (packet payload): only the byte at the universally
    /// quantified index `big_j` is written (value `big_v`); `big_len` = length of the slice
    /// the driver asked to fill, `big_row` = transaction index
    pub big_j: usize,
    pub big_v: u8,
    pub big_len: usize,
    pub big_row: usize,
}
pub(crate) static mut SPI: Uq<SpiLog> = Uq { magic: 0x6C727600DFEC66E3, v: SpiLog { t: [TX0; MAXT], n: 0, script: [[0; MAXRB]; MAXT], fail_at: usize::MAX, probe: 0,
    big_j: 0, big_v: 0, big_len: usize::MAX, big_row: usize::MAX } };

/// the log of the (single) mock SPI.v device
pub(crate) fn spi() -> &'static mut SpiLog {
    unsafe { &mut *core::ptr::addr_of_mut!(SPI.v) }
}

/// transaction `i` of the log, selected with constant indices (a symbolic index into the array of
/// structs produced a spurious counterexample in CBMC that did not reproduce natively, cf. DESIGN R4)
pub(crate) fn tx(i: usize) -> Tx {
    let l = spi();
    macro_rules! sel { ($($k:expr),*) => { $( if i == $k { return l.t[$k]; } )* }; }
    sel!(0, 1, 2, 3, 4, 5, 6, 7, 8, 9, 10, 11, 12, 13, 14, 15, 16, 17, 18, 19, 20, 21, 22, 23);
    TX0
}
/// script byte (row, col) with the row selected by constant indices
pub(crate) fn script_at(row: usize, col: usize) -> u8 {
    let l = spi();
    macro_rules! sel { ($($k:expr),*) => { $( if row == $k { return l.script[$k][col % MAXRB]; } )* }; }
    sel!(0, 1, 2, 3, 4, 5, 6, 7, 8, 9, 10, 11, 12, 13, 14, 15, 16, 17, 18, 19, 20, 21, 22, 23);
    0
}

/// total number of bytes clocked in transaction `t` (written + read)
pub(crate) fn wire_len(t: &Tx) -> usize {
    t.wlen + t.plen + t.rlen
}
/// MOSI byte at wire position `q` of transaction `t` (C13): the bytes of the first Write, then
/// those of the second Write (payload), then 0x00 while the device reads (a written NOP and a
/// clocked read byte are the same byte on the wire)
pub(crate) fn mosi(t: &Tx, q: usize) -> u8 {
    kani::assert(t.wlen <= MAXW && q < MAXW + MAXW, "mock: mosi() looks beyond the recorded head");
    if q < t.wlen {
        t.w[q % MAXW]
    } else if q < t.wlen + t.plen {
        t.p[(q - t.wlen) % MAXW]
    } else {
        0
    }
}

/// Uninterpreted stand-ins for the PLL-word conversions (C13 framing harnesses): the first call
/// fixes an arbitrary result for its argument, later calls with the same argument return it.
pub(crate) static mut UF_PLL: Uq<(bool, u32, u32)> = Uq { magic: 0x6C727600CD6F7F38, v: (false, 0, 0) };
fn uf_pll(f: u32) -> u32 {
    unsafe {
        let u = &mut *core::ptr::addr_of_mut!(UF_PLL.v);
        if u.0 && u.1 == f {
            u.2
        } else {
            *u = (true, f, kani::any());
            u.2
        }
    }
}
pub(crate) fn uf_reset() {
    unsafe { UF_PLL.v = (false, 0, 0); }
}
pub(crate) fn uf_pll126<S, I, C>(f: u32) -> u32 {
    uf_pll(f)
}
pub(crate) fn uf_pll127(f: u32) -> u32 {
    uf_pll(f)
}

/// Keep every byte of the read script in the cone of influence of some property: the replay of a
/// counterexample is generated from the *sliced* formula (DESIGN 9.14), which drops nondet values
/// no property depends on and would leave the playback test with too few values.  No loop.
pub(crate) fn retain_script(s: &[[u8; MAXRB]; MAXT]) {
    let w: [u32; MAXRB * MAXT / 4] = unsafe { core::mem::transmute(*s) };
    macro_rules! x { ($($i:expr),*) => { 0u32 $(^ w[$i])* }; }
    let t = x!(0, 1, 2, 3, 4, 5, 6, 7, 8, 9, 10, 11, 12, 13, 14, 15, 16, 17, 18, 19, 20, 21, 22, 23,
               24, 25, 26, 27, 28, 29, 30, 31, 32, 33, 34, 35, 36, 37, 38, 39, 40, 41, 42, 43, 44, 45, 46, 47,
               48, 49, 50, 51, 52, 53, 54, 55, 56, 57, 58, 59, 60, 61, 62, 63, 64, 65, 66, 67, 68, 69, 70, 71);
    kani::cover!(t != 0x6C72_7601, "info: read script retained for the replay");
}
pub(crate) struct MockSpi;

impl MockSpi {
    /// fresh device: empty log, arbitrary read script, arbitrary payload probe index, no fault
    pub(crate) fn new() -> Self {
        let l = spi();
        l.n = 0;
        l.script = kani::any();
        retain_script(&l.script);
        l.fail_at = usize::MAX;
        l.probe = kani::any();
        l.big_j = kani::any();
        l.big_v = kani::any();
        l.big_len = usize::MAX;
        l.big_row = usize::MAX;
        MockSpi
    }
    /// concrete device for native replays of generated harnesses (no `kani::any()`): every byte
    /// the chip answers is `fill`
    pub(crate) fn concrete(fill: u8) -> Self {
        let l = spi();
        l.n = 0;
        l.script = [[fill; MAXRB]; MAXT];
        l.fail_at = usize::MAX;
        l.probe = (fill as usize) % 200;
        l.big_j = 0;
        l.big_v = fill;
        l.big_len = usize::MAX;
        l.big_row = usize::MAX;
        MockSpi
    }
    /// as `new`, failing at an arbitrary transaction index
    pub(crate) fn failing() -> Self {
        let s = Self::new();
        spi().fail_at = kani::any();
        s
    }
    fn copy_head(dst: &mut [u8; MAXW], b: &[u8]) {
        macro_rules! cp { ($i:expr) => { if $i < b.len() { dst[$i] = b[$i]; } }; }
        cp!(0); cp!(1); cp!(2); cp!(3); cp!(4); cp!(5); cp!(6); cp!(7); cp!(8); cp!(9);
    }
    /// answer a Read operation; `base` = offset into this transaction's script row
    fn fill(row: usize, base: usize, b: &mut [u8]) {
        kani::assert(base + b.len() <= MAXRB, "mock: more than 12 bytes read in one transaction (use the payload mock)");
        let l = spi();
        macro_rules! rd { ($i:expr) => { if $i < b.len() { b[$i] = l.script[row][base + $i]; } }; }
        rd!(0); rd!(1); rd!(2); rd!(3); rd!(4); rd!(5); rd!(6); rd!(7); rd!(8); rd!(9); rd!(10); rd!(11);
    }
}

impl ErrorType for MockSpi {
    type Error = SpiErr;
}

impl SpiDevice<u8> for MockSpi {
    async fn transaction(&mut self, operations: &mut [Operation<'_, u8>]) -> Result<(), SpiErr> {
        let l = spi();
        if l.n == l.fail_at {
            l.n += 1;
            return Err(SpiErr);
        }
        kani::assert(l.n < MAXT, "mock: transaction log full");
        let row = l.n;
        let mut tx = TX0;
        tx.nops = operations.len();
        // the drivers use: [W], [W, W(payload)], [W, R], [W, R(status), R]
        match operations {
            [Operation::Write(a)] => {
                Self::copy_head(&mut tx.w, a);
                tx.wlen = a.len();
            }
            [Operation::Write(a), Operation::Write(b)] => {
                Self::copy_head(&mut tx.w, a);
                tx.wlen = a.len();
                Self::copy_head(&mut tx.p, b);
                tx.plen = b.len();
                if l.probe < b.len() {
                    tx.probe = b[l.probe];
                }
            }
            [Operation::Write(a), Operation::Read(b)] => {
                Self::copy_head(&mut tx.w, a);
                tx.wlen = a.len();
                if b.len() > MAXRB {
                    // payload read: one universally quantified position instead of a 255-step loop
                    if l.big_j < b.len() {
                        b[l.big_j] = l.big_v;
                    }
                    l.big_len = b.len();
                    l.big_row = row;
                } else {
                    Self::fill(row, 0, b);
                }
                tx.rlen = b.len();
            }
            [Operation::Write(a), Operation::Read(st), Operation::Read(b)] => {
                Self::copy_head(&mut tx.w, a);
                tx.wlen = a.len();
                Self::fill(row, 0, st);
                Self::fill(row, 1, b);
                tx.rlen = st.len() + b.len();
            }
            _ => kani::assert(false, "mock: unexpected transaction shape"),
        }
        l.t[row] = tx;
        l.n += 1;
        Ok(())
    }
}

/// Interface variant model: counts calls (in a static log); `wait_on_busy`/`await_irq`/RF switch
/// calls fail at call index `fail_at`.
pub(crate) struct IvLog {
    pub calls: usize,
    pub fail_at: usize,
    pub busy_waits: usize,
    pub irq_waits: usize,
    pub resets: usize,
    pub rx_switch: usize,
    pub tx_switch: usize,
    pub switch_off: usize,
}
pub(crate) static mut IV: Uq<IvLog> = Uq { magic: 0x6C727600DAAD0F2D, v: IvLog { calls: 0, fail_at: usize::MAX, busy_waits: 0, irq_waits: 0, resets: 0, rx_switch: 0, tx_switch: 0, switch_off: 0 } };
pub(crate) fn iv() -> &'static mut IvLog {
    unsafe { &mut *core::ptr::addr_of_mut!(IV.v) }
}
pub(crate) struct MockIv;
impl MockIv {
    pub(crate) fn new() -> Self {
        let l = iv();
        l.calls = 0; l.fail_at = usize::MAX; l.busy_waits = 0; l.irq_waits = 0; l.resets = 0;
        l.rx_switch = 0; l.tx_switch = 0; l.switch_off = 0;
        MockIv
    }
    fn step(e: RadioError) -> Result<(), RadioError> {
        let l = iv();
        let k = l.calls;
        l.calls += 1;
        if k == l.fail_at { Err(e) } else { Ok(()) }
    }
}
impl InterfaceVariant for MockIv {
    async fn reset(&mut self, _delay: &mut impl embedded_hal_async::delay::DelayNs) -> Result<(), RadioError> {
        iv().resets += 1;
        Self::step(RadioError::Reset)
    }
    async fn wait_on_busy(&mut self) -> Result<(), RadioError> {
        iv().busy_waits += 1;
        Self::step(RadioError::Busy)
    }
    async fn await_irq(&mut self) -> Result<(), RadioError> {
        iv().irq_waits += 1;
        Self::step(RadioError::Irq)
    }
    async fn enable_rf_switch_rx(&mut self) -> Result<(), RadioError> {
        iv().rx_switch += 1;
        Self::step(RadioError::RfSwitchRx)
    }
    async fn enable_rf_switch_tx(&mut self) -> Result<(), RadioError> {
        iv().tx_switch += 1;
        Self::step(RadioError::RfSwitchTx)
    }
    async fn disable_rf_switch(&mut self) -> Result<(), RadioError> {
        iv().switch_off += 1;
        Self::step(RadioError::RfSwitchRx)
    }
}

pub(crate) struct MockDelay;
impl embedded_hal_async::delay::DelayNs for MockDelay {
    async fn delay_ns(&mut self, _ns: u32) {}
}

/// One-poll executor: every mock future is immediately ready; a Pending result would mean the
/// code awaits something outside the model and the path is cut.
pub(crate) fn block_on<F: Future>(f: F) -> F::Output {
    let mut f = pin!(f);
    let w = Waker::noop();
    let mut cx = Context::from_waker(&w);
    match f.as_mut().poll(&mut cx) {
        Poll::Ready(v) => v,
        Poll::Pending => {
            kani::assume(false);
            unreachable!()
        }
    }
}

pub(crate) fn any_sf() -> SpreadingFactor {
    let i: u8 = kani::any();
    kani::assume(i < 8);
    match i {
        0 => SpreadingFactor::_5,
        1 => SpreadingFactor::_6,
        2 => SpreadingFactor::_7,
        3 => SpreadingFactor::_8,
        4 => SpreadingFactor::_9,
        5 => SpreadingFactor::_10,
        6 => SpreadingFactor::_11,
        _ => SpreadingFactor::_12,
    }
}
pub(crate) fn any_bw() -> Bandwidth {
    let i: u8 = kani::any();
    kani::assume(i < 10);
    match i {
        0 => Bandwidth::_7KHz,
        1 => Bandwidth::_10KHz,
        2 => Bandwidth::_15KHz,
        3 => Bandwidth::_20KHz,
        4 => Bandwidth::_31KHz,
        5 => Bandwidth::_41KHz,
        6 => Bandwidth::_62KHz,
        7 => Bandwidth::_125KHz,
        8 => Bandwidth::_250KHz,
        _ => Bandwidth::_500KHz,
    }
}
pub(crate) fn any_cr() -> CodingRate {
    let i: u8 = kani::any();
    kani::assume(i < 4);
    match i {
        0 => CodingRate::_4_5,
        1 => CodingRate::_4_6,
        2 => CodingRate::_4_7,
        _ => CodingRate::_4_8,
    }
}
pub(crate) fn sf_of(i: u32) -> SpreadingFactor {
    match i {
        0 => SpreadingFactor::_5,
        1 => SpreadingFactor::_6,
        2 => SpreadingFactor::_7,
        3 => SpreadingFactor::_8,
        4 => SpreadingFactor::_9,
        5 => SpreadingFactor::_10,
        6 => SpreadingFactor::_11,
        _ => SpreadingFactor::_12,
    }
}
pub(crate) fn bw_of(i: u32) -> Bandwidth {
    match i {
        0 => Bandwidth::_7KHz,
        1 => Bandwidth::_10KHz,
        2 => Bandwidth::_15KHz,
        3 => Bandwidth::_20KHz,
        4 => Bandwidth::_31KHz,
        5 => Bandwidth::_41KHz,
        6 => Bandwidth::_62KHz,
        7 => Bandwidth::_125KHz,
        8 => Bandwidth::_250KHz,
        _ => Bandwidth::_500KHz,
    }
}
pub(crate) fn cr_of(i: u32) -> CodingRate {
    match i {
        0 => CodingRate::_4_5,
        1 => CodingRate::_4_6,
        2 => CodingRate::_4_7,
        _ => CodingRate::_4_8,
    }
}
pub(crate) fn sf_num(sf: SpreadingFactor) -> u32 {
    match sf {
        SpreadingFactor::_5 => 5,
        SpreadingFactor::_6 => 6,
        SpreadingFactor::_7 => 7,
        SpreadingFactor::_8 => 8,
        SpreadingFactor::_9 => 9,
        SpreadingFactor::_10 => 10,
        SpreadingFactor::_11 => 11,
        SpreadingFactor::_12 => 12,
    }
}
pub(crate) fn bw_hz(bw: Bandwidth) -> u64 {
    match bw {
        Bandwidth::_7KHz => 7_810,
        Bandwidth::_10KHz => 10_420,
        Bandwidth::_15KHz => 15_630,
        Bandwidth::_20KHz => 20_830,
        Bandwidth::_31KHz => 31_250,
        Bandwidth::_41KHz => 41_670,
        Bandwidth::_62KHz => 62_500,
        Bandwidth::_125KHz => 125_000,
        Bandwidth::_250KHz => 250_000,
        Bandwidth::_500KHz => 500_000,
    }
}
/// LDRO rule (C15): on exactly when 2^SF / BW >= 16.38 ms
pub(crate) fn ref_ldro(sf: SpreadingFactor, bw: Bandwidth) -> bool {
    (1u64 << sf_num(sf)) * 100_000 >= 1638 * bw_hz(bw)
}
