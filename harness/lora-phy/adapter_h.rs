//@file anchor=lora-phy/src/lorawan_radio.rs cfg=feature="lorawan-radio"
// C17 (LoRaWAN adapter): the receive timeout in symbols that LorawanRadio hands to the driver
// covers the preamble (12.25 symbols) plus the requested margin in milliseconds.
use super::*;
use crate::verif_kani_lora_phy_mock::{any_bw, any_cr, any_sf, Uq};

/// contract of BaseBandModulationParams::delay_in_symbols (decided for all 80 (SF, BW) pairs and
/// every delay by the E2 job c16_symbols: floor(delay_ms * 1000 / t_sym_us)): an arbitrary value
/// d with d * t <= 1000 * ms < (d + 1) * t.  Stated with multiplications only (a 32-bit divider
/// with a symbolic divisor took CBMC 6-10 minutes).
pub(crate) static mut T_SYM: Uq<u32> = Uq { magic: 0x6C7276007D510001, v: 0 };
fn stub_delay_in_symbols(_bb: &BaseBandModulationParams, delay_in_ms: u32) -> u16 {
    let t = unsafe { T_SYM.v } as u64;
    let d: u16 = kani::any();
    kani::assume((d as u64) * t <= 1000 * delay_in_ms as u64 && 1000 * (delay_in_ms as u64) < (d as u64 + 1) * t);
    d
}

//@h id=adapter_rx_timeout_covers props=C17 tier=quick build=phy cost=30 timeout=900
//@bounds all 80 (SF, BW) pairs x margin 0..=1000 ms: RxMode::from(Single{ms}) gives n symbols with n * t_sym >= 12.25 * t_sym + ms (exact rational comparison), Continuous stays Continuous
//@encodes lorawan_radio::RxMode::from
//@assumes BaseBandModulationParams::delay_in_symbols replaced by its contract (floor division, proved by the C16 E2 job); the symbol time is the one the compiled code uses (symbols_to_ms(1000))
#[kani::proof]
#[kani::stub(BaseBandModulationParams::delay_in_symbols, stub_delay_in_symbols)]
#[kani::unwind(4)]
fn adapter_rx_timeout_covers() {
    let bb = BaseBandModulationParams::new(any_sf(), any_bw(), any_cr());
    let t = bb.symbols_to_ms(1000); // = t_sym_us (t * 1000 / 1000, no overflow: t <= 524288)
    kani::assume(t > 0);
    unsafe { T_SYM.v = t; }
    let ms: u32 = kani::any();
    kani::assume(ms <= 1000);
    match RxMode::from(LorawanRxMode::Single { ms }, bb) {
        RxMode::Single(n) => {
            // n * t >= 12.25 t + 1000 ms   <=>   4 n t >= 49 t + 4000 ms
            kani::assert(4 * (n as u64) * (t as u64) >= 49 * (t as u64) + 4000 * (ms as u64),
                "C17: the symbol timeout handed to the driver is shorter than the preamble (12.25 symbols) plus the requested margin");
            kani::cover!(ms == 1000, "1000 ms margin");
        }
        _ => kani::assert(false, "C17: a single-shot window must stay single-shot"),
    }
    kani::assert(matches!(RxMode::from(LorawanRxMode::Continuous, bb), RxMode::Continuous), "C17: continuous stays continuous");
}
