//@file anchor=lora-phy/src/lorawan_radio.rs cfg=feature="lorawan-radio"
// C17 (LoRaWAN adapter): the receive timeout in symbols that LorawanRadio hands to the driver
// covers the preamble (12.25 symbols) plus the requested margin in milliseconds.
use super::*;
use crate::verif_kani_lora_phy_mock::{any_bw, any_cr, any_sf, Uq};

/// contract of BaseBandModulationParams::delay_in_symbols (decided for all 80 (SF, BW) pairs and
/// every delay by the E2 job c16_symbols: floor(delay_ms * 1000 / t_sym_us)): an arbitrary value
/// d with d * t <= 1000 * ms < (d + 1) * t.  Stated with multiplications only (a 32-bit divider
/// with a symbolic divisor took CBMC 6-10 minutes).
pub(crate) static mut T_SYM: Uq<u32> = Uq { magic: 0x6C7276007D510001, v: 0 };
fn stub_delay_in_symbols(_bb: &BaseBandModulationParams, delay_in_ms: u32) -> u16 {
    let t = unsafe { T_SYM.v } as u64;
    let d: u16 = kani::any();
    kani::assume((d as u64) * t <= 1000 * delay_in_ms as u64 && 1000 * (delay_in_ms as u64) < (d as u64 + 1) * t);
    d
}

//@h id=adapter_rx_timeout_covers props=C17 tier=quick build=phy cost=30 timeout=900
//@bounds all 80 (SF, BW) pairs x margin 0..=1000 ms: RxMode::from(Single{ms}) gives n symbols with n * t_sym >= 12.25 * t_sym + ms (exact rational comparison), Continuous stays Continuous
//@encodes lorawan_radio::RxMode::from
//@assumes BaseBandModulationParams::delay_in_symbols replaced by its contract (floor division, proved by the C16 E2 job); the symbol time is the one the compiled code uses (symbols_to_ms(1000))
#[kani::proof]
#[kani::stub(BaseBandModulationParams::delay_in_symbols, stub_delay_in_symbols)]
#[kani::unwind(4)]
fn adapter_rx_timeout_covers() {
    let bb = BaseBandModulationParams::new(any_sf(), any_bw(), any_cr());
    let t = bb.symbols_to_ms(1000); // = t_sym_us (t * 1000 / 1000, no overflow: t <= 524288)
    kani::assume(t > 0);
    unsafe { T_SYM.v = t; }
    let ms: u32 = kani::any();
    kani::assume(ms <= 1000);
    match RxMode::from(LorawanRxMode::Single { ms }, bb) {
        RxMode::Single(n) => {
            // n * t >= 12.25 t + 1000 ms   <=>   4 n t >= 49 t + 4000 ms
            kani::assert(4 * (n as u64) * (t as u64) >= 49 * (t as u64) + 4000 * (ms as u64),
                "C17: the symbol timeout handed to the driver is shorter than the preamble (12.25 symbols) plus the requested margin");
            kani::cover!(ms == 1000, "1000 ms margin");
        }
        _ => kani::assert(false, "C17: a single-shot window must stay single-shot"),
    }
    kani::assert(matches!(RxMode::from(LorawanRxMode::Continuous, bb), RxMode::Continuous), "C17: continuous stays continuous");
}

// ------------------------------------------------------------------------------------------------
// C14-H4 / C18: the LoRaWAN adapter over the trait-level chip model of lora_h.rs.  One PhyRxTx
// call from an arbitrary driver/chip state coupled by I-phy, two fault positions, IRQ script.
// ------------------------------------------------------------------------------------------------
use crate::verif_kani_lora_phy_lora_h::{any_coupled, any_pp, chip, faulted, post, ChipMode, ModelChip};
use crate::verif_kani_lora_phy_mock::{block_on, MockDelay};
use crate::mod_params::RadioMode;
use lorawan_device::async_device::radio::RfConfig;

type Radio = LorawanRadio<ModelChip, MockDelay, 22, 0>;

fn any_radio() -> Radio {
    let lora = any_coupled();
    let have: bool = kani::any();
    LorawanRadio {
        lora,
        rx_pkt_params: if have { Some(any_pp()) } else { None },
        rx_window_lead_time: kani::any(),
        rx_window_buffer: kani::any(),
    }
}
fn any_rf() -> RfConfig {
    let bb = BaseBandModulationParams::new(any_sf(), any_bw(), any_cr());
    let t = bb.symbols_to_ms(1000);
    kani::assume(t > 0);
    unsafe { T_SYM.v = t; }
    RfConfig { frequency: kani::any(), bb, max_payload_len: kani::any() }
}

//@h id=adapter_tx props=C14 tier=quick build=phy cost=90 timeout=900
//@bounds LorawanRadio::tx from every coupled driver/chip state: any (SF, BW, CR), frequency, power (i8), payload length 0..=8, IRQ script of 3 outcomes, two fault positions
//@encodes LorawanRadio::tx, LoRa::prepare_for_tx, LoRa::tx
//@assumes trait-level chip model (lora_h.rs)
#[kani::proof]
#[kani::unwind(8)]
fn adapter_tx() {
    let mut r = any_radio();
    let cfg = TxConfig { pw: kani::any(), rf: any_rf() };
    let buf = [0u8; 8];
    let n: usize = kani::any();
    kani::assume(n <= 8);
    let res = block_on(r.tx(cfg, &buf[..n]));
    post(&r.lora, "adapter_tx");
    let c = chip();
    if res.is_ok() {
        kani::assert(c.mode == ChipMode::Standby && r.lora.radio_mode == RadioMode::Standby, "C14: after a completed transmission the chip is in standby and the driver knows it");
    } else if !faulted() {
        kani::assert(c.mode == ChipMode::Standby && r.lora.radio_mode == RadioMode::Standby, "C14: after a failed or timed-out transmission the chip is in standby and the driver knows it");
    }
    kani::cover!(res.is_ok(), "adapter transmission completed");
    kani::cover!(res.is_err() && !faulted(), "adapter transmission timed out");
}

//@h id=adapter_setup_rx props=C14 tier=quick build=phy cost=60 timeout=900
//@bounds LorawanRadio::setup_rx from every coupled state: any (SF, BW, CR), frequency, Single{ms <= 1000} or Continuous, two fault positions
//@encodes LorawanRadio::setup_rx, LoRa::prepare_for_rx, lorawan_radio::RxMode::from
//@assumes trait-level chip model; delay_in_symbols replaced by its contract (C16 E2 job)
#[kani::proof]
#[kani::stub(BaseBandModulationParams::delay_in_symbols, stub_delay_in_symbols)]
#[kani::unwind(8)]
fn adapter_setup_rx() {
    let mut r = any_radio();
    let single: bool = kani::any();
    let ms: u32 = kani::any();
    kani::assume(ms <= 1000);
    let cfg = RxConfig { rf: any_rf(), mode: if single { LorawanRxMode::Single { ms } } else { LorawanRxMode::Continuous } };
    let had = r.rx_pkt_params.is_some();
    let res = block_on(r.setup_rx(cfg));
    post(&r.lora, "adapter_setup_rx");
    let c = chip();
    if res.is_ok() {
        kani::assert(r.rx_pkt_params.is_some(), "C14: a prepared reception keeps its packet parameters for rx_single/rx_continuous");
        let ok_mode = if single { matches!(r.lora.radio_mode, RadioMode::Receive(RxMode::Single(_))) } else { r.lora.radio_mode == RadioMode::Receive(RxMode::Continuous) };
        kani::assert(ok_mode, "C14: setup_rx prepares the reception mode that was asked for");
        kani::assert(c.init && c.irq && c.modulation && c.packet && c.freq, "C14: setup_rx programs everything a reception depends on");
    }
    let _ = had;
    kani::cover!(res.is_ok() && single, "single-shot window prepared");
}

fn rx_common(r: &mut Radio, continuous: bool) -> u8 {
    let before = chip().calls;
    let mode0 = r.lora.radio_mode;
    let have = r.rx_pkt_params.is_some();
    let buf0: [u8; 16] = kani::any();
    let mut buf = buf0;
    // Ok(Some(n)) = packet of n bytes, Ok(None) = RxTimeout
    let res: Result<Option<usize>, Error> = if continuous {
        block_on(r.rx_continuous(&mut buf)).map(|(n, _)| Some(n))
    } else {
        block_on(r.rx_single(&mut buf)).map(|s| match s { RxStatus::Rx(n, _) => Some(n), RxStatus::RxTimeout => None })
    };
    post(&r.lora, "adapter_rx");
    let c = chip();
    if !have {
        kani::assert(matches!(res, Err(Error::NoRxParams)), "C14: reception without setup_rx is refused with NoRxParams");
        kani::assert(c.calls == before, "C14: a refused reception must not command the chip");
    } else if !matches!(mode0, RadioMode::Receive(_)) {
        kani::assert(matches!(res, Err(Error::Radio(RadioError::InvalidRadioMode))), "C14: reception in the wrong mode is refused with InvalidRadioMode");
        kani::assert(c.calls == before, "C14: a refused reception must not command the chip");
    } else {
        match res {
            Ok(Some(n)) => {
                kani::assert(c.rx_fetched && n == c.rx_n as usize, "C18: the adapter reports exactly the length of the packet fetched from the chip");
                if c.rx_k < 16 {
                    let want = if c.rx_k < n { c.rx_byte } else { buf0[c.rx_k] };
                    kani::assert(buf[c.rx_k] == want, "C18: the adapter hands the MAC exactly the fetched bytes and leaves the rest of the buffer untouched");
                }
            }
            Ok(None) => {
                kani::assert(!continuous, "C14: continuous reception has no time-out result");
                if !faulted() && mode0 != RadioMode::Receive(RxMode::Continuous) {
                    kani::assert(c.mode == ChipMode::Standby && r.lora.radio_mode == RadioMode::Standby, "C14: after a timed-out window the chip is in standby and the driver knows it");
                }
                if c.rx_k < 16 && !c.rx_fetched {
                    kani::assert(buf[c.rx_k] == buf0[c.rx_k], "C18: a timed-out window leaves the buffer untouched");
                }
            }
            Err(_) => {
                if !faulted() && mode0 != RadioMode::Receive(RxMode::Continuous) {
                    kani::assert(c.mode == ChipMode::Standby && r.lora.radio_mode == RadioMode::Standby, "C14: after a failed reception the chip is in standby and the driver knows it");
                }
            }
        }
    }
    match res { Ok(Some(16)) => 3, Ok(Some(_)) => 0, Ok(None) => 1, Err(_) => 2 }
}

//@h id=adapter_rx_single props=C14,C18 tier=quick build=phy cost=90 timeout=900
//@bounds LorawanRadio::rx_single from every coupled state with/without prepared packet parameters, IRQ script of 3 outcomes, two fault positions, 16-byte buffer, watched byte index symbolic
//@encodes LorawanRadio::rx_single, LoRa::rx
//@assumes trait-level chip model; chip-level get_rx_payload contract (rx_payload_* harnesses)
#[kani::proof]
#[kani::unwind(8)]
fn adapter_rx_single() {
    let mut r = any_radio();
    let k = rx_common(&mut r, false);
    kani::cover!(k == 3, "adapter: full buffer received");
    kani::cover!(k == 1, "adapter: window timed out");
}
//@h id=adapter_rx_continuous props=C14,C18 tier=quick build=phy cost=90 timeout=900
//@bounds LorawanRadio::rx_continuous, as adapter_rx_single
//@encodes LorawanRadio::rx_continuous, LoRa::rx
//@assumes as adapter_rx_single
#[kani::proof]
#[kani::unwind(8)]
fn adapter_rx_continuous() {
    let mut r = any_radio();
    let k = rx_common(&mut r, true);
    kani::cover!(k == 3, "adapter: full buffer received");
}
//@h id=adapter_low_power props=C14 tier=quick build=phy cost=30 timeout=900
//@bounds LorawanRadio::low_power from every coupled state, two fault positions
//@encodes LorawanRadio::low_power, LoRa::sleep
//@assumes trait-level chip model
#[kani::proof]
#[kani::unwind(8)]
fn adapter_low_power() {
    let mut r = any_radio();
    let was_asleep = r.lora.radio_mode == RadioMode::Sleep;
    let res = block_on(r.low_power());
    post(&r.lora, "adapter_low_power");
    if res.is_ok() {
        kani::assert(r.lora.radio_mode == RadioMode::Sleep && (was_asleep || chip().mode == ChipMode::Sleep), "C14: low_power puts chip and driver to sleep");
        kani::assert(was_asleep || r.lora.cold_start, "C14: the cold sleep of low_power is remembered so that everything is programmed again");
    }
}
