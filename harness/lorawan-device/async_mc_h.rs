//@file anchor=lorawan-device/src/async_device/mod.rs cfg=all(feature="region-eu868",feature="multicast")
// C06 with the non-default `multicast` feature: the async front-end transmits the answer to a
// remote multicast setup command itself (handle_mac_response), and a multicast downlink may end
// a Class A transaction.  Same contract-stub technique as async_h.rs.
use super::*;
use super::verif_kani_lorawan_device_async_common::{
    any_rf, block_on, stub_get_fcnt_up, stub_get_rx_delay, stub_rx2_complete, stub_send, MRadio, MTimer, NoRng, Uq,
    G_BUILT, G_BUILT_FCNT, G_FCNT, G_RX_CALLS,
};
use crate::mac::multicast;

static mut G_ANS_BUILT: Uq<u32> = Uq { magic: 0x6C727600AC5E7001, v: 0 }; // answers built by Mac::multicast_setup_send
static mut G_ANS_FCNT: Uq<u32> = Uq { magic: 0x6C727600AC5E7002, v: 0 }; // counter the last answer was built with

/// contract of Mac::multicast_setup_send (Multicast::setup_send -> Session::prepare_buffer, proved
/// by the prepare_* harnesses): the answer is built with the current counter, which is not consumed
fn stub_multicast_setup_send<RNG: RngCore, const N: usize>(
    _m: &mut Mac,
    _rng: &mut RNG,
    _buf: &mut RadioBuffer<N>,
) -> mac::Result<(radio::TxConfig, mac::FcntUp)> {
    unsafe {
        if kani::any() {
            return Err(mac::Error::NotJoined);
        }
        G_ANS_BUILT.v += 1;
        G_ANS_FCNT.v = G_FCNT.v;
        Ok((radio::TxConfig { pw: kani::any(), rf: any_rf() }, G_FCNT.v))
    }
}
fn any_group() -> u8 {
    let g: u8 = kani::any();
    kani::assume(g < 4);
    g
}
/// contract of Mac::handle_rx with the multicast feature (Session::handle_rx): as in
/// async_common.rs, plus: a frame on a multicast port is handled by the multicast sessions and
/// leaves the unicast session untouched; a remote-setup command (port 200) is an accepted unicast
/// downlink (counter advanced) whose result is a multicast response.  Responses that request an
/// answer uplink are left to async_mc_answer_counter (the send-level harness with the answer
/// transmission inlined twice did not finish in 30 minutes): the composition is sound because
/// such a response comes with an advanced counter, so send()'s own frame is already consumed.
fn stub_handle_rx_mc<const N: usize, const D: usize>(
    _m: &mut Mac,
    _buf: &mut RadioBuffer<N>,
    _dl: &mut Vec<Downlink, D>,
    _snr: i8,
    _rf: &RfConfig,
) -> mac::Response {
    unsafe {
        G_RX_CALLS.v += 1;
        let pick: u8 = kani::any();
        // (frames that change nothing -- NoUpdate, which keeps the window listening -- are the
        // subject of async_send_faults; leaving them out here keeps the listen loops at one pass)
        match pick % 2 {
            0 => {
                // multicast port: unicast session untouched
                mac::Response::Multicast(if pick & 2 == 0 {
                    multicast::Response::DownlinkReceived { group_id: any_group(), fcnt: kani::any() }
                } else {
                    multicast::Response::SessionExpired { group_id: any_group() }
                })
            }
            _ => {
                if G_FCNT.v == u32::MAX {
                    mac::Response::SessionExpired
                } else {
                    G_FCNT.v += 1;
                    if pick & 2 == 0 {
                        mac::Response::DownlinkReceived(kani::any())
                    } else {
                        mac::Response::Multicast(multicast::Response::NewSession { group_id: any_group() })
                    }
                }
            }
        }
    }
}
/// in the send-level harness no response asks for an answer uplink (see stub_handle_rx_mc)
fn stub_no_transmit_request(_r: &multicast::Response) -> bool {
    false
}

fn any_mc_response() -> multicast::Response {
    let pick: u8 = kani::any();
    match pick % 6 {
        0 => multicast::Response::NewSession { group_id: any_group() },
        1 => multicast::Response::SessionExpired { group_id: any_group() },
        2 => multicast::Response::NoUpdate,
        3 => multicast::Response::GroupSetupTransmitRequest { group_id: any_group() },
        4 => multicast::Response::TransmitRequest,
        _ => multicast::Response::DownlinkReceived { group_id: any_group(), fcnt: kani::any() },
    }
}

//@h id=async_mc_answer_counter props=C06 tier=quick build=dev-eu868-mc cost=60 timeout=1200
//@bounds `multicast` feature: Device::handle_mac_response on every multicast response kind (incl. both transmit requests) from an arbitrary uplink counter, the radio failing at an arbitrary call position (tx, setup_rx) or not at all, with and without an RX configuration to re-arm: an answer handed to the radio consumes its counter (or session expiry is reported)
//@encodes async_device::Device::handle_mac_response (multicast branch)
//@assumes Mac::{multicast_setup_send, rx2_complete} replaced by contract stubs (facts proved by prepare_* / rx2_complete_step_*); built without class-c
#[kani::proof]
#[kani::stub(Mac::multicast_setup_send, stub_multicast_setup_send)]
#[kani::stub(Mac::rx2_complete, stub_rx2_complete)]
#[kani::unwind(4)]
fn async_mc_answer_counter() {
    let start: u32 = kani::any();
    unsafe {
        G_FCNT.v = start;
        G_ANS_BUILT.v = 0;
    }
    let mut radio = MRadio { calls: 0, fail_at: kani::any(), tx_calls: 0, tx_ok: 0, always_rx: false };
    let mut mac = Mac::new(region::Configuration::new(region::Region::EU868), 20, 0);
    let mut rng = NoRng;
    let mut buf = RadioBuffer::<256>::new();
    let rx_config: Option<radio::RxConfig> =
        if kani::any() { Some(radio::RxConfig { rf: any_rf(), mode: radio::RxMode::Continuous }) } else { None };
    let r = block_on(Device::<MRadio, MTimer, NoRng, 256, 1>::handle_mac_response(
        &mut buf, &mut mac, &mut radio, &mut rng, mac::Response::Multicast(any_mc_response()), rx_config));
    unsafe {
        if radio.tx_calls > 0 {
            let expired = matches!(r, Ok(Some(mac::Response::SessionExpired)));
            assert!(G_ANS_BUILT.v == 1 && radio.tx_calls == 1, "C06: one answer per transmit request");
            assert!(G_FCNT.v > G_ANS_FCNT.v || (G_ANS_FCNT.v == u32::MAX && expired),
                "C06: a multicast answer was handed to the radio but FCntUp was not advanced (nor session expiry reported): the next uplink reuses its counter");
        } else {
            assert!(G_FCNT.v == start, "C06: no counter is consumed when nothing was handed to the radio");
        }
        assert!(G_FCNT.v <= start.saturating_add(1), "C06: at most one counter value is consumed");
        kani::cover!(radio.tx_ok == 1 && r.is_ok(), "answer transmitted");
        kani::cover!(radio.tx_calls == 1 && r.is_err(), "radio fault while answering");
    }
}

//@h id=async_send_faults_mc props=C06 tier=thorough build=dev-eu868-mc cost=3000 timeout=7200
//@bounds `multicast` feature: as async_send_faults, with receive outcomes extended by multicast downlinks (which leave the unicast session untouched) and remote-setup commands that need no answer (accepted unicast downlinks), every received frame being one of these or a timeout (frames the MAC ignores: async_send_faults); responses requesting an answer uplink are covered by async_mc_answer_counter
//@encodes async_device::Device::{send, rx_downlink, rx_listen, handle_mac_response}, From<mac::Response> for SendResponse
//@assumes as async_send_faults; multicast::Response::is_transmit_request stubbed to false (the MAC contract of this harness produces no transmit request)
#[kani::proof]
#[kani::stub(Mac::send, stub_send)]
#[kani::stub(Mac::handle_rx, stub_handle_rx_mc)]
#[kani::stub(Mac::rx2_complete, stub_rx2_complete)]
#[kani::stub(Mac::get_rx_delay, stub_get_rx_delay)]
#[kani::stub(Mac::get_fcnt_up, stub_get_fcnt_up)]
#[kani::stub(Mac::multicast_setup_send, stub_multicast_setup_send)]
#[kani::stub(multicast::Response::is_transmit_request, stub_no_transmit_request)]
#[kani::unwind(3)]
fn async_send_faults_mc() {
    send_mc_step(true);
}

//@h id=async_send_mc props=C06 tier=thorough build=dev-eu868-mc cost=2500 timeout=7200
//@bounds as async_send_faults_mc on a fault-free radio whose RX1 window always receives a frame (radio faults and window time-outs with the multicast feature: thorough tier; without it: async_send_faults)
//@encodes async_device::Device::{send, rx_downlink, rx_listen, handle_mac_response}, From<mac::Response> for SendResponse
//@assumes as async_send_faults_mc
#[kani::proof]
#[kani::stub(Mac::send, stub_send)]
#[kani::stub(Mac::handle_rx, stub_handle_rx_mc)]
#[kani::stub(Mac::rx2_complete, stub_rx2_complete)]
#[kani::stub(Mac::get_rx_delay, stub_get_rx_delay)]
#[kani::stub(Mac::get_fcnt_up, stub_get_fcnt_up)]
#[kani::stub(Mac::multicast_setup_send, stub_multicast_setup_send)]
#[kani::stub(multicast::Response::is_transmit_request, stub_no_transmit_request)]
#[kani::unwind(3)]
fn async_send_mc() {
    send_mc_step(false);
}

fn send_mc_step(faults: bool) {
    let start: u32 = kani::any();
    unsafe {
        G_FCNT.v = start;
        G_BUILT.v = 0;
        G_RX_CALLS.v = 0;
        G_ANS_BUILT.v = 0;
    }
    // fault-free variant: RX1 always receives something (window time-outs: async_send_faults)
    let radio = MRadio { calls: 0, fail_at: if faults { kani::any() } else { usize::MAX }, tx_calls: 0, tx_ok: 0, always_rx: !faults };
    let mut dev: Device<MRadio, MTimer, NoRng, 256, 1> =
        Device::new(region::Configuration::new(region::Region::EU868), radio, MTimer, NoRng);
    let payload = [0u8; 4];
    let r = block_on(dev.send(&payload, 1, kani::any()));
    unsafe {
        assert!(G_BUILT.v == 1, "C06: one application frame per send");
        let expired = matches!(r, Ok(SendResponse::SessionExpired));
        if dev.radio.tx_calls > 0 {
            // the application frame (built with `start`) was handed to the radio
            assert!(G_FCNT.v > start || (start == u32::MAX && expired),
                "C06: the uplink was handed to the radio but FCntUp was not advanced (nor session expiry reported) when send() returned: the next uplink reuses the counter");
        } else {
            assert!(G_FCNT.v == start, "C06: no counter is consumed when nothing was handed to the radio");
        }
        assert!(G_ANS_BUILT.v == 0 && dev.radio.tx_calls <= 1, "C06: no answer uplink without a transmit request");
        kani::cover!(matches!(r, Ok(SendResponse::Multicast(_))), "send ends with a multicast response");
    }
}
