//@file anchor=lorawan-device/src/region/fixed_channel_plans/mod.rs
// Helpers for fixed channel plans (US915/AU915): arbitrary plan states, invariant I-fix, snapshots.
use super::*;
use super::join_channels::verif_kani_lorawan_device_region_joinch as jch;

pub(crate) fn any_plan<F: FixedChannelRegion>(p: &mut FixedChannelPlan<F>) {
    let m: [u8; 9] = kani::any();
    p.channel_mask = ChannelMask::from(m);
    p.join_channels = jch::any_join_channels();
}

fn any125(m: &ChannelMask<9>) -> bool {
    m.get_index(0) != 0 || m.get_index(1) != 0 || m.get_index(2) != 0 || m.get_index(3) != 0
        || m.get_index(4) != 0 || m.get_index(5) != 0 || m.get_index(6) != 0 || m.get_index(7) != 0
}

/// I-fix: the current data rate is defined by the region; join bookkeeping is a reachable state.
/// (Since the "fix: fixed-plan channel selection spins forever ..." commit the channel mask needs
/// no invariant: selection falls back to the default mask when nothing of the needed bandwidth
/// is enabled.)
pub(crate) fn inv<F: FixedChannelRegion>(p: &FixedChannelPlan<F>, dr: DR) -> bool {
    (dr as u8) < 15 && F::datarates()[(dr as usize) % 15].is_some() && jch::inv(&p.join_channels)
}

/// does the mask enable at least one channel of the class (500 kHz: 64..71, else 0..63)?
pub(crate) fn any_enabled<F: FixedChannelRegion>(p: &FixedChannelPlan<F>, bw500: bool) -> bool {
    if bw500 { p.channel_mask.get_index(8) != 0 } else { any125(&p.channel_mask) }
}

pub(crate) fn same<F: FixedChannelRegion>(a: &FixedChannelPlan<F>, b: &FixedChannelPlan<F>) -> bool {
    let mut eq = jch::same(&a.join_channels, &b.join_channels);
    macro_rules! bank { ($i:expr) => { if a.channel_mask.get_index($i) != b.channel_mask.get_index($i) { eq = false; } }; }
    bank!(0); bank!(1); bank!(2); bank!(3); bank!(4); bank!(5); bank!(6); bank!(7); bank!(8);
    eq
}

pub(crate) fn mask_bank<F: FixedChannelRegion>(p: &FixedChannelPlan<F>, i: usize) -> u8 {
    p.channel_mask.get_index(i)
}
pub(crate) fn enabled<F: FixedChannelRegion>(p: &FixedChannelPlan<F>, ch: usize) -> bool {
    p.channel_mask.get_index((ch % 72) >> 3) & (1 << (ch & 7)) != 0
}
pub(crate) fn ul_freq<F: FixedChannelRegion>(_p: &FixedChannelPlan<F>, ch: usize) -> u32 {
    F::uplink_channels()[ch % 72]
}
pub(crate) fn dl_freq<F: FixedChannelRegion>(_p: &FixedChannelPlan<F>, ch: usize) -> u32 {
    F::downlink_channels()[ch % 8]
}
pub(crate) fn freq_valid<F: FixedChannelRegion>(p: &FixedChannelPlan<F>, f: u32) -> bool {
    (p.frequency_valid)(f)
}
pub(crate) fn join_state<F: FixedChannelRegion>(p: &FixedChannelPlan<F>) -> &join_channels::JoinChannels {
    &p.join_channels
}
