//@file anchor=lorawan-device/src/mac/session.rs cfg=feature="serde"
// C20: Session (de)serialisation through a schema-driven serde back end written here: the
// Serializer appends raw values to a u64 stream, the Deserializer lets the *type* drive the
// control flow (struct -> map with a scripted key order, tuple(n) -> seq of n, option -> tag)
// and pops values from the stream (DESIGN 3/C20; a tagged-token back end explodes, R1).
use super::*;
use super::verif_kani_lorawan_device_session_rx::{any_session, mc, session_same, uh};
use core::fmt;
use serde::de::{self, DeserializeSeed, MapAccess, SeqAccess, Visitor};
use serde::ser::{self, SerializeStruct, SerializeTuple};
use serde::{Deserialize, Serialize};

/// Every harness static carries a unique tag: Kani resolves a *constant* whose bytes equal a
/// static's initial bytes to that static (rustc interns allocations by content), so writing to a
/// `static mut FLAG: bool = false` silently changed constants such as `DR::_0` in the code under
/// test (found on macs_r0_linkadr2, see DESIGN 9.4).  Unique initial content rules this out.
#[repr(C)]
pub(crate) struct Uq<T> {
    pub magic: u64,
    pub v: T,
}

const CAP: usize = 96;
static mut STREAM: Uq<[u64; CAP]> = Uq { magic: 0x6C727600F27E373C, v: [0; CAP] };
static mut WPOS: Uq<usize> = Uq { magic: 0x6C727600BD23F8B9, v: 0 };
static mut RPOS: Uq<usize> = Uq { magic: 0x6C7276008AFD088B, v: 0 };
/// key script for the outer Session struct (indices into its `fields`), and its length
static mut SCRIPT: Uq<[usize; 10]> = Uq { magic: 0x6C7276001E160E1A, v: [0; 10] };
static mut SCRIPT_LEN: Uq<usize> = Uq { magic: 0x6C727600046D71DE, v: 0 };
/// same for the nested Uplink struct
static mut USCRIPT: Uq<[usize; 5]> = Uq { magic: 0x6C7276008E7D91E2, v: [0; 5] };
static mut USCRIPT_LEN: Uq<usize> = Uq { magic: 0x6C727600C7F69173, v: 0 };
/// an unknown key is presented at this position of the outer script (usize::MAX = never)
static mut UNKNOWN_AT: Uq<usize> = Uq { magic: 0x6C72760084842973, v: usize::MAX };

fn push(v: u64) {
    unsafe {
        assert!(WPOS.v < CAP, "serde model: stream full");
        STREAM.v[WPOS.v] = v;
        WPOS.v += 1;
    }
}
fn pop() -> u64 {
    unsafe {
        assert!(RPOS.v < CAP, "serde model: stream exhausted");
        let v = STREAM.v[RPOS.v];
        RPOS.v += 1;
        v
    }
}

#[derive(Debug)]
pub(crate) struct E;
impl fmt::Display for E {
    fn fmt(&self, f: &mut fmt::Formatter<'_>) -> fmt::Result {
        f.write_str("E")
    }
}
impl core::error::Error for E {}
impl ser::Error for E {
    fn custom<T: fmt::Display>(_msg: T) -> Self {
        E
    }
}
impl de::Error for E {
    fn custom<T: fmt::Display>(_msg: T) -> Self {
        E
    }
}

// ---- serializer -----------------------------------------------------------------------------------
struct S;
impl ser::Serializer for S {
    type Ok = ();
    type Error = E;
    type SerializeSeq = ser::Impossible<(), E>;
    type SerializeTuple = S;
    type SerializeTupleStruct = ser::Impossible<(), E>;
    type SerializeTupleVariant = ser::Impossible<(), E>;
    type SerializeMap = ser::Impossible<(), E>;
    type SerializeStruct = S;
    type SerializeStructVariant = ser::Impossible<(), E>;
    fn serialize_bool(self, v: bool) -> Result<(), E> { push(v as u64); Ok(()) }
    fn serialize_i8(self, _v: i8) -> Result<(), E> { Err(E) }
    fn serialize_i16(self, _v: i16) -> Result<(), E> { Err(E) }
    fn serialize_i32(self, _v: i32) -> Result<(), E> { Err(E) }
    fn serialize_i64(self, _v: i64) -> Result<(), E> { Err(E) }
    fn serialize_u8(self, v: u8) -> Result<(), E> { push(v as u64); Ok(()) }
    fn serialize_u16(self, v: u16) -> Result<(), E> { push(v as u64); Ok(()) }
    fn serialize_u32(self, v: u32) -> Result<(), E> { push(v as u64); Ok(()) }
    fn serialize_u64(self, v: u64) -> Result<(), E> { push(v); Ok(()) }
    fn serialize_f32(self, _v: f32) -> Result<(), E> { Err(E) }
    fn serialize_f64(self, _v: f64) -> Result<(), E> { Err(E) }
    fn serialize_char(self, _v: char) -> Result<(), E> { Err(E) }
    fn serialize_str(self, _v: &str) -> Result<(), E> { Err(E) }
    fn serialize_bytes(self, _v: &[u8]) -> Result<(), E> { Err(E) }
    fn serialize_none(self) -> Result<(), E> { push(0); Ok(()) }
    fn serialize_some<T: ?Sized + Serialize>(self, value: &T) -> Result<(), E> { push(1); value.serialize(S) }
    fn serialize_unit(self) -> Result<(), E> { Err(E) }
    fn serialize_unit_struct(self, _n: &'static str) -> Result<(), E> { Err(E) }
    fn serialize_unit_variant(self, _n: &'static str, _i: u32, _v: &'static str) -> Result<(), E> { Err(E) }
    fn serialize_newtype_struct<T: ?Sized + Serialize>(self, _n: &'static str, value: &T) -> Result<(), E> { value.serialize(S) }
    fn serialize_newtype_variant<T: ?Sized + Serialize>(self, _n: &'static str, _i: u32, _v: &'static str, _value: &T) -> Result<(), E> { Err(E) }
    fn serialize_seq(self, _len: Option<usize>) -> Result<Self::SerializeSeq, E> { Err(E) }
    fn serialize_tuple(self, _len: usize) -> Result<S, E> { Ok(S) }
    fn serialize_tuple_struct(self, _n: &'static str, _len: usize) -> Result<Self::SerializeTupleStruct, E> { Err(E) }
    fn serialize_tuple_variant(self, _n: &'static str, _i: u32, _v: &'static str, _len: usize) -> Result<Self::SerializeTupleVariant, E> { Err(E) }
    fn serialize_map(self, _len: Option<usize>) -> Result<Self::SerializeMap, E> { Err(E) }
    fn serialize_struct(self, _n: &'static str, _len: usize) -> Result<S, E> { Ok(S) }
    fn serialize_struct_variant(self, _n: &'static str, _i: u32, _v: &'static str, _len: usize) -> Result<Self::SerializeStructVariant, E> { Err(E) }
    fn collect_str<T: ?Sized + fmt::Display>(self, _value: &T) -> Result<(), E> { Err(E) }
}
impl SerializeTuple for S {
    type Ok = ();
    type Error = E;
    fn serialize_element<T: ?Sized + Serialize>(&mut self, value: &T) -> Result<(), E> { value.serialize(S) }
    fn end(self) -> Result<(), E> { Ok(()) }
}
impl SerializeStruct for S {
    type Ok = ();
    type Error = E;
    // fields are written in declaration order, values only (the schema supplies the names)
    fn serialize_field<T: ?Sized + Serialize>(&mut self, _key: &'static str, value: &T) -> Result<(), E> { value.serialize(S) }
    fn end(self) -> Result<(), E> { Ok(()) }
}

// ---- deserializer ---------------------------------------------------------------------------------
struct D;
/// presents one field name (or an unknown one) as a map key
struct Key(&'static str);
struct Seq(usize);
struct Map {
    fields: &'static [&'static str],
    outer: bool,
    pos: usize,
}

macro_rules! refuse {
    ($($f:ident)*) => { $( fn $f<V: Visitor<'static>>(self, _v: V) -> Result<V::Value, E> { Err(E) } )* };
}

impl de::Deserializer<'static> for D {
    type Error = E;
    refuse!(deserialize_any deserialize_i8 deserialize_i16 deserialize_i32 deserialize_i64 deserialize_f32 deserialize_f64 deserialize_char deserialize_str deserialize_string deserialize_bytes deserialize_byte_buf deserialize_unit deserialize_seq deserialize_map deserialize_identifier deserialize_ignored_any);
    fn deserialize_bool<V: Visitor<'static>>(self, v: V) -> Result<V::Value, E> { v.visit_bool(pop() != 0) }
    fn deserialize_u8<V: Visitor<'static>>(self, v: V) -> Result<V::Value, E> {
        let x = pop();
        if x > u8::MAX as u64 { return Err(E); }
        v.visit_u8(x as u8)
    }
    fn deserialize_u16<V: Visitor<'static>>(self, v: V) -> Result<V::Value, E> {
        let x = pop();
        if x > u16::MAX as u64 { return Err(E); }
        v.visit_u16(x as u16)
    }
    fn deserialize_u32<V: Visitor<'static>>(self, v: V) -> Result<V::Value, E> {
        let x = pop();
        if x > u32::MAX as u64 { return Err(E); }
        v.visit_u32(x as u32)
    }
    fn deserialize_u64<V: Visitor<'static>>(self, v: V) -> Result<V::Value, E> { v.visit_u64(pop()) }
    fn deserialize_option<V: Visitor<'static>>(self, v: V) -> Result<V::Value, E> {
        if pop() == 0 { v.visit_none() } else { v.visit_some(D) }
    }
    fn deserialize_unit_struct<V: Visitor<'static>>(self, _n: &'static str, _v: V) -> Result<V::Value, E> { Err(E) }
    fn deserialize_newtype_struct<V: Visitor<'static>>(self, _n: &'static str, v: V) -> Result<V::Value, E> { v.visit_newtype_struct(D) }
    fn deserialize_tuple<V: Visitor<'static>>(self, len: usize, v: V) -> Result<V::Value, E> { v.visit_seq(Seq(len)) }
    fn deserialize_tuple_struct<V: Visitor<'static>>(self, _n: &'static str, len: usize, v: V) -> Result<V::Value, E> { v.visit_seq(Seq(len)) }
    fn deserialize_struct<V: Visitor<'static>>(self, name: &'static str, fields: &'static [&'static str], v: V) -> Result<V::Value, E> {
        v.visit_map(Map { fields, outer: name.len() == 7, pos: 0 }) // "Session" (7) vs "Uplink" (6)
    }
    fn deserialize_enum<V: Visitor<'static>>(self, _n: &'static str, _vs: &'static [&'static str], _v: V) -> Result<V::Value, E> { Err(E) }
}

impl de::Deserializer<'static> for Key {
    type Error = E;
    refuse!(deserialize_bool deserialize_i8 deserialize_i16 deserialize_i32 deserialize_i64 deserialize_u8 deserialize_u16 deserialize_u32 deserialize_u64 deserialize_f32 deserialize_f64 deserialize_char deserialize_bytes deserialize_byte_buf deserialize_option deserialize_unit deserialize_seq deserialize_map);
    fn deserialize_any<V: Visitor<'static>>(self, v: V) -> Result<V::Value, E> { v.visit_str(self.0) }
    fn deserialize_str<V: Visitor<'static>>(self, v: V) -> Result<V::Value, E> { v.visit_str(self.0) }
    fn deserialize_string<V: Visitor<'static>>(self, v: V) -> Result<V::Value, E> { v.visit_str(self.0) }
    fn deserialize_identifier<V: Visitor<'static>>(self, v: V) -> Result<V::Value, E> { v.visit_str(self.0) }
    fn deserialize_ignored_any<V: Visitor<'static>>(self, v: V) -> Result<V::Value, E> { v.visit_unit() }
    fn deserialize_unit_struct<V: Visitor<'static>>(self, _n: &'static str, _v: V) -> Result<V::Value, E> { Err(E) }
    fn deserialize_newtype_struct<V: Visitor<'static>>(self, _n: &'static str, _v: V) -> Result<V::Value, E> { Err(E) }
    fn deserialize_tuple<V: Visitor<'static>>(self, _len: usize, _v: V) -> Result<V::Value, E> { Err(E) }
    fn deserialize_tuple_struct<V: Visitor<'static>>(self, _n: &'static str, _len: usize, _v: V) -> Result<V::Value, E> { Err(E) }
    fn deserialize_struct<V: Visitor<'static>>(self, _n: &'static str, _f: &'static [&'static str], _v: V) -> Result<V::Value, E> { Err(E) }
    fn deserialize_enum<V: Visitor<'static>>(self, _n: &'static str, _vs: &'static [&'static str], _v: V) -> Result<V::Value, E> { Err(E) }
}

impl SeqAccess<'static> for Seq {
    type Error = E;
    fn next_element_seed<T: DeserializeSeed<'static>>(&mut self, seed: T) -> Result<Option<T::Value>, E> {
        if self.0 == 0 {
            return Ok(None);
        }
        self.0 -= 1;
        seed.deserialize(D).map(Some)
    }
}

impl MapAccess<'static> for Map {
    type Error = E;
    fn next_key_seed<K: DeserializeSeed<'static>>(&mut self, seed: K) -> Result<Option<K::Value>, E> {
        unsafe {
            let (len, unknown) = if self.outer { (SCRIPT_LEN.v, UNKNOWN_AT.v) } else { (USCRIPT_LEN.v, usize::MAX) };
            if self.pos >= len {
                return Ok(None);
            }
            let name = if self.pos == unknown {
                "unknown_field"
            } else {
                let idx = if self.outer { SCRIPT.v[self.pos] } else { USCRIPT.v[self.pos] };
                self.fields[idx]
            };
            self.pos += 1;
            seed.deserialize(Key(name)).map(Some)
        }
    }
    fn next_value_seed<T: DeserializeSeed<'static>>(&mut self, seed: T) -> Result<T::Value, E> {
        seed.deserialize(D)
    }
}

fn set_scripts(outer: &[usize], inner: &[usize], unknown_at: usize) {
    unsafe {
        let mut i = 0;
        while i < outer.len() {
            SCRIPT.v[i] = outer[i];
            i += 1;
        }
        SCRIPT_LEN.v = outer.len();
        let mut i = 0;
        while i < inner.len() {
            USCRIPT.v[i] = inner[i];
            i += 1;
        }
        USCRIPT_LEN.v = inner.len();
        UNKNOWN_AT.v = unknown_at;
        RPOS.v = 0;
    }
}

const DECL: [usize; 8] = [0, 1, 2, 3, 4, 5, 6, 7];
const UDECL: [usize; 3] = [0, 1, 2];

//@h id=session_roundtrip props=C20 tier=quick build=dev-serde cost=60 timeout=1200
//@bounds an arbitrary Session: both keys, address, both counters (fcnt_down None or any u32), ADR counter, confirmed flag, ACK owed, pending answers = LinkADRAns+RXParamSetupAns+DevStatusAns+RXTimingSetupAns+DlChannelAns (9 bytes, symbolic payloads); keys presented in declaration order; the value stream must be consumed exactly
//@encodes derive(Serialize, Deserialize) for Session, NwkSKey/AppSKey/AES128, DevAddr; hand-written Serialize/Deserialize for Uplink (mac/uplink/serde.rs)
//@assumes any self-describing or schema-driven serde format that honours the serde data model; serde_json's text layer is outside the claim
//@out other pending-queue shapes (covered by session_roundtrip_full / _empty)
#[kani::proof]
#[kani::unwind(20)]
fn session_roundtrip() {
    roundtrip(&[0x03, 0x05, 0x06, 0x08, 0x0A]);
}
//@h id=session_roundtrip_full props=C20 tier=quick build=dev-serde cost=60 timeout=1200
//@bounds as session_roundtrip with a full 15-byte pending queue (5 x DevStatusAns)
#[kani::proof]
#[kani::unwind(20)]
fn session_roundtrip_full() {
    roundtrip(&[0x06, 0x06, 0x06, 0x06, 0x06]);
}
//@h id=session_roundtrip_empty props=C20 tier=quick build=dev-serde cost=40 timeout=1200
//@bounds as session_roundtrip with an empty pending queue
#[kani::proof]
#[kani::unwind(20)]
fn session_roundtrip_empty() {
    roundtrip(&[]);
}

fn roundtrip(cids: &[u8]) {
    let s = any_session(cids);
    unsafe { WPOS.v = 0; }
    let r = s.serialize(S);
    assert!(r.is_ok(), "C20: serialising a session must succeed");
    let written = unsafe { WPOS.v };
    set_scripts(&DECL, &UDECL, usize::MAX);
    match Session::deserialize(D) {
        Ok(t) => {
            assert!(session_same(&s, &t), "C20: the restored session must equal the original in every field");
            assert!(unsafe { RPOS.v } == written, "C20: the serialised form is consumed exactly");
            kani::cover!(t.fcnt_down().is_none(), "restored 'no downlink yet'");
            kani::cover!(t.fcnt_up == u32::MAX, "restored counter at 2^32-1");
        }
        Err(_) => assert!(false, "C20: a serialised session must deserialise"),
    }
}

/// malformed input: arbitrary value stream, scripted key structure
fn malformed(outer: &[usize], inner: &[usize], unknown_at: usize) {
    let vals: [u64; CAP] = kani::any();
    unsafe { STREAM.v = vals; }
    set_scripts(outer, inner, unknown_at);
    match Session::deserialize(D) {
        Err(_) => {
            kani::cover!(true, "info: rejected");
        }
        Ok(mut t) => {
            kani::cover!(true, "info: accepted");
            assert!(uh::pending(&t.uplink).len() <= 15, "C20: a restored session never holds more than 15 pending bytes");
            // operations on the restored session stay panic-free; the pending queue holds arbitrary
            // bytes here: Uplink::clear_mac_commands on arbitrary queues is covered by the harness
            // pending_any_bytes (symbolic CIDs make it too expensive to repeat in every script)
            let region = region::Configuration::new(mc::rt::region_ut(0));
            let mut cfg = mc::any_configuration();
            kani::assume(mc::cfg_inv(&cfg, &region));
            let _ = t.rx2_complete(&mut cfg, &region);
            t.uplink.clear_mac_commands(false);
            let _ = t.fcnt_down();
        }
    }
}

macro_rules! mal { ($name:ident, $o:expr, $i:expr, $u:expr) => {
    #[kani::proof]
    #[kani::unwind(20)]
    fn $name() { malformed(&$o, &$i, $u) }
}; }
//@h id=malformed_values props=C20 tier=quick build=dev-serde cost=90 timeout=1500
//@bounds declared key order, every value of the stream arbitrary (pending_len 0..=255 and beyond u8, option tags, counters, out-of-range numbers): Err or a session with <= 15 pending bytes on which clear_mac_commands / rx2_complete do not panic
//@encodes Session::deserialize, Uplink::deserialize (length check), Session::rx2_complete
mal!(malformed_values, DECL, UDECL, usize::MAX);
//@h id=malformed_missing_field props=C20 tier=quick build=dev-serde cost=60 timeout=1500
//@bounds one field of Session missing (fcnt_down) and one field of Uplink missing (pending_len): must be rejected or stay panic-free
mal!(malformed_missing_field, [0, 1, 2, 3, 4, 5, 7], [0, 2], usize::MAX);
//@h id=malformed_duplicate_field props=C20 tier=quick build=dev-serde cost=60 timeout=1500
//@bounds a duplicated Session field (fcnt_up twice) and a duplicated Uplink field
mal!(malformed_duplicate_field, [0, 1, 2, 3, 4, 5, 5, 6, 7], [0, 1, 1, 2], usize::MAX);
//@h id=malformed_reversed props=C20 tier=quick build=dev-serde cost=60 timeout=1500
//@bounds keys in reverse order (map formats do not guarantee order)
mal!(malformed_reversed, [7, 6, 5, 4, 3, 2, 1, 0], [2, 1, 0], usize::MAX);
//@h id=malformed_unknown_key props=C20 tier=quick build=dev-serde cost=60 timeout=1500
//@bounds an unknown key in the Session map
mal!(malformed_unknown_key, [0, 1, 2, 3, 3, 4, 5, 6, 7], UDECL, 3);
