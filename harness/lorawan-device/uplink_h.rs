//@file anchor=lorawan-device/src/mac/uplink/mod.rs
// Helpers + harnesses for the pending-answer queue (C08-H2).
use super::*;

/// payload length of an uplink MAC command, by CID (LoRaWAN 1.0.4 table 4)
pub(crate) const fn ul_len(cid: u8) -> usize {
    match cid {
        0x03 | 0x05 | 0x07 | 0x0A => 1,
        0x06 => 2,
        _ => 0,
    }
}

/// A pending queue consisting of the whole commands `cids` (concrete CID skeleton, DESIGN R1)
/// with symbolic payload bytes; `confirmed` (ACK owed) arbitrary.
pub(crate) fn uplink_of(cids: &[u8]) -> Uplink {
    let mut u = Uplink::default();
    let mut i = 0;
    while i < cids.len() {
        let cid = cids[i];
        u.pending.push(cid).unwrap();
        let mut j = 0;
        while j < ul_len(cid) {
            u.pending.push(kani::any()).unwrap();
            j += 1;
        }
        i += 1;
    }
    u.confirmed = kani::any();
    u
}

pub(crate) fn pending(u: &Uplink) -> &[u8] {
    &u.pending
}
pub(crate) fn same(a: &Uplink, b: &Uplink) -> bool {
    if a.confirmed != b.confirmed || a.pending.len() != b.pending.len() {
        return false;
    }
    let mut eq = true;
    let mut i = 0;
    while i < 15 {
        if i < a.pending.len() && a.pending[i] != b.pending[i] {
            eq = false;
        }
        i += 1;
    }
    eq
}
