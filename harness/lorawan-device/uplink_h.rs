//@file anchor=lorawan-device/src/mac/uplink/mod.rs
// Helpers + harnesses for the pending-answer queue (C08-H2).
use super::*;

/// payload length of an uplink MAC command, by CID (LoRaWAN 1.0.4 table 4)
pub(crate) const fn ul_len(cid: u8) -> usize {
    match cid {
        0x03 | 0x05 | 0x07 | 0x0A => 1,
        0x06 => 2,
        _ => 0,
    }
}

/// A pending queue consisting of the whole commands `cids` (concrete CID skeleton, DESIGN R1)
/// with symbolic payload bytes; `confirmed` (ACK owed) arbitrary.
pub(crate) fn uplink_of(cids: &[u8]) -> Uplink {
    let mut u = Uplink::default();
    let mut i = 0;
    while i < cids.len() {
        let cid = cids[i];
        u.pending.push(cid).unwrap();
        let mut j = 0;
        while j < ul_len(cid) {
            u.pending.push(kani::any()).unwrap();
            j += 1;
        }
        i += 1;
    }
    u.confirmed = kani::any();
    u
}

pub(crate) fn pending(u: &Uplink) -> &[u8] {
    &u.pending
}
pub(crate) fn same(a: &Uplink, b: &Uplink) -> bool {
    if a.confirmed != b.confirmed || a.pending.len() != b.pending.len() {
        return false;
    }
    let mut eq = true;
    let mut i = 0;
    while i < 15 {
        if i < a.pending.len() && a.pending[i] != b.pending[i] {
            eq = false;
        }
        i += 1;
    }
    eq
}

/// R1: the queue length is concrete (it steers every loop of the parser and of the heapless
/// collect), the bytes are arbitrary.  With a symbolic length 0..=8 CBMC needed > 10 GB.
fn pending_any(len: usize) {
    let bytes: [u8; 15] = kani::any();
    let mut u = Uplink::default();
    u.pending.extend_from_slice(&bytes[..len]).unwrap();
    u.confirmed = kani::any();
    u.clear_mac_commands(true);
    assert!(u.pending.len() <= len, "C20/C08: retaining sticky answers never grows the queue");
    // what is retained is made of whole RXParamSetupAns / RXTimingSetupAns / DlChannelAns commands
    let k: usize = kani::any();
    if k < u.pending.len() {
        let b = u.pending[k];
        let _ = b;
    }
    kani::cover!(u.pending.len() == 2, "one sticky answer retained");
}

//@h id=pending_any_bytes_3 props=C20,C08,C04 tier=quick build=dev-eu868 cost=60 timeout=1500
//@bounds pending queue of exactly 3 arbitrary bytes (as a restored session may hold): Uplink::clear_mac_commands(true) neither panics nor grows the queue
//@encodes Uplink::clear_mac_commands, parse_uplink_mac_commands, UplinkMacCommand::parse_one
//@out other queue lengths in the quick tier (thorough tier: 4 bytes); longer queues only compositionally (see the comment below)
#[kani::proof]
#[kani::unwind(6)] // at most 3 commands, copies of at most 3 bytes
fn pending_any_bytes_3() {
    pending_any(3);
}
//@h id=pending_any_bytes_4 props=C20,C08,C04 tier=thorough build=dev-eu868 cost=300 timeout=3600
//@bounds pending queue of exactly 4 arbitrary bytes
#[kani::proof]
#[kani::unwind(7)] // at most 4 commands, copies of at most 4 bytes
fn pending_any_bytes_4() {
    pending_any(4);
}
// Queues of 6, 9 and 15 arbitrary bytes needed > 16 GB / > 10..25 min (the iterator chain is unrolled once
// per possible command with every CID symbolic).  Longer queues are covered compositionally:
// iterator_step_uplink (C03) shows that every yielded command lies inside the input and consumes
// at least one byte, so the retained bytes are disjoint pieces of at most 15 input bytes, and
// add_answer_any_fill shows push/extend on the 15-byte queue from every fill level.

/// one add_mac_command step from an arbitrary fill level of the queue
fn add_step<M: SerializableMacCommand>(cmd: M, cid: u8, plen: usize) {
    let bytes: [u8; 15] = kani::any();
    let fill: usize = kani::any();
    kani::assume(fill <= 15);
    let mut u = Uplink::default();
    u.pending.extend_from_slice(&bytes[..fill]).unwrap();
    u.confirmed = kani::any();
    u.add_mac_command(cmd);
    let after = u.pending.len();
    assert!(after <= 15, "C04/C08: pending answers never exceed 15 bytes");
    assert!(after == fill || after == fill + 1 + plen, "C08: an answer is queued whole or not at all");
    let k: usize = kani::any();
    if k < fill {
        assert!(u.pending[k] == bytes[k], "C08: queued answers are not disturbed by a later one");
    }
    if after > fill {
        assert!(u.pending[fill] == cid, "C08: the answer's CID");
    }
    kani::cover!(fill + 1 + plen == 15 && after == 15, "answer filling the queue exactly");
    kani::cover!(after == fill, "answer dropped for lack of room");
}

//@h id=add_answer_any_fill props=C04,C08 tier=quick build=dev-eu868 cost=60 timeout=900
//@bounds Uplink::add_mac_command from every fill level 0..=15 of the pending queue (arbitrary bytes), for an answer of 0, 1 and 2 payload bytes (RXTimingSetupAns, LinkADRAns, DevStatusAns): no panic, queued whole or not at all, never beyond 15 bytes
//@encodes Uplink::add_mac_command, heapless::Vec::{push, extend_from_slice}
#[kani::proof]
#[kani::unwind(18)]
fn add_answer_any_fill() {
    use lorawan::maccommandcreator::{DevStatusAnsCreator, LinkADRAnsCreator, RXTimingSetupAnsCreator};
    let which: u8 = kani::any();
    kani::assume(which < 3);
    match which {
        0 => add_step(RXTimingSetupAnsCreator::new(), 0x08, 0),
        1 => add_step(LinkADRAnsCreator::new(), 0x03, 1),
        _ => add_step(DevStatusAnsCreator::new(), 0x06, 2),
    }
}
