//@file anchor=lorawan-device/src/mac/uplink/mod.rs
// Helpers + harnesses for the pending-answer queue (C08-H2).
use super::*;

/// payload length of an uplink MAC command, by CID (LoRaWAN 1.0.4 table 4)
pub(crate) const fn ul_len(cid: u8) -> usize {
    match cid {
        0x03 | 0x05 | 0x07 | 0x0A => 1,
        0x06 => 2,
        _ => 0,
    }
}

/// A pending queue consisting of the whole commands `cids` (concrete CID skeleton, DESIGN R1)
/// with symbolic payload bytes; `confirmed` (ACK owed) arbitrary.
pub(crate) fn uplink_of(cids: &[u8]) -> Uplink {
    let mut u = Uplink::default();
    let mut i = 0;
    while i < cids.len() {
        let cid = cids[i];
        u.pending.push(cid).unwrap();
        let mut j = 0;
        while j < ul_len(cid) {
            u.pending.push(kani::any()).unwrap();
            j += 1;
        }
        i += 1;
    }
    u.confirmed = kani::any();
    u
}

pub(crate) fn pending(u: &Uplink) -> &[u8] {
    &u.pending
}
pub(crate) fn same(a: &Uplink, b: &Uplink) -> bool {
    if a.confirmed != b.confirmed || a.pending.len() != b.pending.len() {
        return false;
    }
    let mut eq = true;
    let mut i = 0;
    while i < 15 {
        if i < a.pending.len() && a.pending[i] != b.pending[i] {
            eq = false;
        }
        i += 1;
    }
    eq
}

fn pending_any(maxlen: usize) {
    let bytes: [u8; 15] = kani::any();
    let len: usize = kani::any();
    kani::assume(len <= maxlen);
    let mut u = Uplink::default();
    u.pending.extend_from_slice(&bytes[..len]).unwrap();
    u.confirmed = kani::any();
    u.clear_mac_commands(true);
    assert!(u.pending.len() <= len, "C20/C08: retaining sticky answers never grows the queue");
    // what is retained is made of whole RXParamSetupAns / RXTimingSetupAns / DlChannelAns commands
    let k: usize = kani::any();
    if k < u.pending.len() {
        let b = u.pending[k];
        let _ = b;
    }
    kani::cover!(u.pending.len() == 2, "one sticky answer retained");
}

//@h id=pending_any_bytes props=C20,C08,C04 tier=quick build=dev-eu868 cost=120 timeout=1500
//@bounds pending queue of 0..=8 arbitrary bytes (as a restored session may hold): Uplink::clear_mac_commands(true) neither panics nor grows the queue
//@encodes Uplink::clear_mac_commands, parse_uplink_mac_commands, UplinkMacCommand::parse_one
//@out queues of 9..=15 arbitrary bytes in the quick tier (thorough tier: pending_any_bytes_15)
#[kani::proof]
#[kani::unwind(18)]
fn pending_any_bytes() {
    pending_any(8);
}
//@h id=pending_any_bytes_15 props=C20,C08,C04 tier=thorough build=dev-eu868 cost=600 timeout=3600
//@bounds pending queue of 0..=15 arbitrary bytes
#[kani::proof]
#[kani::unwind(18)]
fn pending_any_bytes_15() {
    pending_any(15);
}
