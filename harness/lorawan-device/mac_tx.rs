//@file anchor=lorawan-device/src/mac/mod.rs
// C09-H1 / C04-H4: every TX configuration produced from an invariant-satisfying state is legal,
// and channel selection terminates (enumerating RNG).
use super::*;
use super::verif_kani_lorawan_device_mac_common as mc;
use super::session::verif_kani_lorawan_device_session_rx::any_session;
use mc::rt;

pub(crate) fn stub_prepare_pub<const N: usize>(
    s: &mut Session,
    _data: &SendData<'_>,
    _tx: &mut RadioBuffer<N>,
    _c: &Configuration,
    _r: &region::Configuration,
) -> FcntUp {
    s.fcnt_up
}

/// regional maximum EIRP in dBm (RP002-1.0.3 section 2; EU433: 12.15 dBm)
fn ref_max_eirp(r: region::Region) -> i16 {
    match r {
        #[cfg(feature = "region-eu868")]
        region::Region::EU868 => 16,
        #[cfg(feature = "region-eu433")]
        region::Region::EU433 => 12,
        #[cfg(feature = "region-in865")]
        region::Region::IN865 => 30,
        #[cfg(feature = "region-us915")]
        region::Region::US915 => 30,
        #[cfg(feature = "region-au915")]
        region::Region::AU915 => 30,
        #[allow(unreachable_patterns)]
        _ => 16, // AS923-1..4
    }
}

pub(crate) fn any_mac_pub(ri: usize) -> Mac {
    let r = rt::region_ut(ri);
    let mut region = rt::any_region(r);
    let cfg = mc::any_configuration();
    kani::assume(mc::cfg_inv(&cfg, &region));
    kani::assume(rt::inv(&mut region, cfg.data_rate));
    let max_power: u8 = kani::any();
    let antenna_gain: i8 = kani::any();
    kani::assume(max_power <= 30 && antenna_gain >= -30 && antenna_gain <= 30);
    Mac {
        configuration: cfg,
        region,
        board_eirp: BoardEirp { max_power, antenna_gain },
        state: State::Joined(any_session(&[])),
        #[cfg(feature = "certification")]
        certification: certification::Certification::new(),
    }
}

fn check_tx(mac0: &mut Mac, ri: usize, join: bool, tx: &radio::TxConfig, w: &RxWindows) {
    let r = rt::region_ut(ri);
    let fixed = rt::is_fixed(r);
    let bw500 = tx.rf.bb.bw == lora_modulation::Bandwidth::_500KHz;
    crate::vcheck!(rt::freq_in_band(&mut mac0.region, tx.rf.frequency), "C09: transmit frequency outside the region's band");
    if join {
        crate::vcheck!(rt::join_channel_legal(&mut mac0.region, tx.rf.frequency, w.rx1.frequency),
            "C09/C10: a join request must use a join channel, RX1 on its paired downlink frequency");
    } else {
        // data frames (and dynamic-plan joins) use a channel that is defined and enabled now;
        // RX1 listens on the downlink frequency paired with exactly that channel
        crate::vcheck!(rt::tx_channel_legal(&mut mac0.region, tx.rf.frequency, w.rx1.frequency, bw500),
            "C09/C10: transmission must use a defined and enabled channel (of the data rate's bandwidth), RX1 on its paired downlink frequency");
    }
    // data rate: defined by the region, and the one the MAC is configured for (fixed-plan join
    // channels force DR0 / DR4 by channel class)
    let mut dr_ok = false;
    let mut d = 0u8;
    while d < 15 {
        if let Some(x) = mac0.region.get_datarate(d) {
            if x.spreading_factor == tx.rf.bb.sf && x.bandwidth == tx.rf.bb.bw {
                let wanted = if fixed && join { true } else { d == mac0.configuration.data_rate as u8 };
                if wanted || fixed {
                    dr_ok = true;
                }
            }
        }
        d += 1;
    }
    crate::vcheck!(dr_ok, "C09: transmit data rate is not one the region defines");
    // power
    let pw = tx.pw as i16;
    let gain = mac0.board_eirp.antenna_gain as i16;
    crate::vcheck!(pw <= mac0.board_eirp.max_power as i16, "C09: conducted power above the radio's maximum");
    crate::vcheck!(pw <= ref_max_eirp(r) - gain, "C09: conducted power above the regional maximum EIRP less antenna gain");
    if !join {
        if let Some(p) = mac0.configuration.tx_power {
            crate::vcheck!(pw <= p as i16, "C09: conducted power above the level the network commanded");
        }
    }
}

fn tx_data_step(ri: usize) {
    crate::mac::verif_kani_lorawan_device_mac_common::vinit();
    let mut mac = any_mac_pub(ri);
    let mut pre = Mac {
        configuration: mac.configuration,
        region: mac.region.clone(),
        board_eirp: BoardEirp { max_power: mac.board_eirp.max_power, antenna_gain: mac.board_eirp.antenna_gain },
        state: State::Unjoined,
        #[cfg(feature = "certification")]
        certification: certification::Certification::new(),
    };
    let mut rng = mc::AnyRng::new(3);
    let mut buf = RadioBuffer::<64>::new();
    let send = SendData { data: &[], fport: 1, confirmed: false };
    let r = mac.send::<mc::AnyRng, 64>(&mut rng, &mut buf, &send);
    match r {
        Ok((tx, w, _)) => {
            kani::cover!(rng.draws == 3, "returned on the third draw");
            // the channel mask in force is the one after selection (selection may fall back to
            // the default mask when the commanded one enables nothing usable)
            pre.region = mac.region.clone();
            check_tx(&mut pre, ri, false, &tx, &w);
        }
        Err(_) => assert!(false, "joined device must be able to send"),
    }
}

fn tx_join_step(ri: usize) {
    crate::mac::verif_kani_lorawan_device_mac_common::vinit();
    let mut mac = any_mac_pub(ri);
    let mut pre = Mac {
        configuration: mac.configuration,
        region: mac.region.clone(),
        board_eirp: BoardEirp { max_power: mac.board_eirp.max_power, antenna_gain: mac.board_eirp.antenna_gain },
        state: State::Unjoined,
        #[cfg(feature = "certification")]
        certification: certification::Certification::new(),
    };
    lorawan::default_crypto::model::reset(0);
    let mut rng = mc::AnyRng::new(4);
    let mut buf = RadioBuffer::<64>::new();
    let creds = NetworkCredentials::new(
        crate::AppEui::from(kani::any::<[u8; 8]>()),
        crate::DevEui::from(kani::any::<[u8; 8]>()),
        crate::AppKey::from(kani::any::<[u8; 16]>()),
    );
    let (tx, w, _nonce) = mac.join_otaa::<mc::AnyRng, 64>(&mut rng, creds, &mut buf);
    pre.region = mac.region.clone();
    check_tx(&mut pre, ri, true, &tx, &w);
    if rt::is_fixed(rt::region_ut(ri)) {
        // join requests go out on a join channel with the data rate its class mandates
        // RP002: US915 joins with DR0 (SF10/125 kHz) / DR4 (SF8/500 kHz), AU915 with DR2 (SF10/125 kHz)
        // / DR6 (SF8/500 kHz): in both regions SF10 on the 125 kHz channels, SF8 on the 500 kHz ones
        let bw500 = tx.rf.bb.bw == lora_modulation::Bandwidth::_500KHz;
        let want_sf = if bw500 { lora_modulation::SpreadingFactor::_8 } else { lora_modulation::SpreadingFactor::_10 };
        crate::vcheck!(tx.rf.bb.sf == want_sf, "C09: fixed-plan join request must use SF10 on a 125 kHz channel (US915 DR0, AU915 DR2) and SF8 on a 500 kHz channel (DR4 / DR6)");
        let is500 = rt::join_channel_is_500(&mut pre.region, tx.rf.frequency);
        crate::vcheck!(is500 == bw500, "C09: the join data rate's bandwidth must match the join channel (channels 64..71 are 500 kHz)");
    }
}

/// termination: with an enumerating RNG every retry loop must succeed within its mask size
fn select_terminates(ri: usize, join: bool, budget: u32) {
    crate::mac::verif_kani_lorawan_device_mac_common::vinit();
    let mut mac = any_mac_pub(ri);
    let mut rng = mc::EnumRng::new(budget);
    let frame = if join { Frame::Join } else { Frame::Data };
    let (_tx, ch) = mac.region.create_tx_config(&mut rng, mac.configuration.data_rate, &frame);
    crate::vcheck!(ch.frequency != 0, "C09: a channel was selected");
    kani::cover!(rng.draws > 1, "needed more than one draw");
}

/// same for fixed-plan join channels, which consume a draw in 3-bit slices
fn join_terminates_slices(ri: usize, budget: u32) {
    crate::mac::verif_kani_lorawan_device_mac_common::vinit();
    let mut mac = any_mac_pub(ri);
    let mut rng = mc::SliceRng::new(budget);
    let (_tx, ch) = mac.region.create_tx_config(&mut rng, mac.configuration.data_rate, &Frame::Join);
    crate::vcheck!(ch.frequency != 0, "C09: a channel was selected");
    kani::cover!(rng.draws > 1, "needed more than one draw");
}

macro_rules! h { ($name:ident, $body:expr, $unw:expr) => {
    #[kani::proof]
    #[kani::stub(Session::prepare_buffer, stub_prepare_pub)]
    #[kani::unwind($unw)]
    fn $name() { $body }
}; }

//@h id=tx_data_legal_r0 props=C09,C10 tier=quick build=dev-eu868 tbuilds=dev-eu433,dev-in865,dev-as923 cost=60 timeout=1200
//@bounds EU868; arbitrary plan (13 optional channels, masks, DL remaps) under I-dyn, arbitrary configuration under I-dr, board power 0..=30 dBm, antenna gain -30..=30 dBi; every RNG stream of at most 3 draws (later draws repeat the same loop body)
//@encodes Mac::send (post-processing), region::Configuration::create_tx_config, DynamicChannelPlan::select_tx_channel, get_random_in_range, TxConfig::adjust_power, Mac::rx_windows
//@assumes Session::prepare_buffer stubbed (frame building is checked by prepare_* harnesses)
h!(tx_data_legal_r0, tx_data_step(0), 74);
//@h id=tx_join_legal_r0 props=C09,C10 tier=quick build=dev-eu868 tbuilds=dev-eu433,dev-in865,dev-as923 cost=60 timeout=1200
//@bounds EU868 join request; as above, RNG streams of at most 4 draws
//@encodes Mac::join_otaa, Otaa::prepare_buffer, select_tx_channel (Join)
h!(tx_join_legal_r0, tx_join_step(0), 74);
//@h id=tx_select_terminates_r0 props=C04,C09 tier=quick build=dev-eu868 tbuilds=dev-eu433,dev-in865,dev-as923 cost=120 timeout=1500
//@bounds EU868 data frames; arbitrary plan under I-dyn; RNG = counter from an arbitrary start (enumerates every residue of the 3/4/5-bit masks): success within 33 draws, hence no state under I-dyn in which no draw can succeed
//@encodes DynamicChannelPlan::select_tx_channel (Data), get_random_in_range
h!(tx_select_terminates_r0, select_terminates(0, false, 33), 74);
//@h id=tx_join_terminates_r0 props=C04,C09 tier=quick build=dev-eu868 tbuilds=dev-eu433,dev-in865,dev-as923 cost=30 timeout=900
//@bounds EU868 join: the 2-bit rejection loop succeeds within 5 draws of an enumerating RNG
h!(tx_join_terminates_r0, select_terminates(0, true, 5), 74);

//@h id=tx_data_legal_us props=C09,C10 tier=quick build=dev-us915 tbuilds=dev-au915 cost=90 timeout=1500
//@bounds US915; arbitrary 72-bit mask and reachable join bookkeeping (bias, retries, round-robin state), arbitrary configuration under I-dr, board power 0..=30, gain -30..=30; RNG streams of at most 3 draws
//@encodes FixedChannelPlan::select_tx_channel, JoinChannels::{has_bias_and_not_exhausted, first_data_channel, get_next_channel}, AvailableChannels::get_next
h!(tx_data_legal_us, tx_data_step(0), 84);
//@h id=tx_join_legal_us props=C09,C10 tier=quick build=dev-us915 tbuilds=dev-au915 cost=90 timeout=1500
//@bounds US915 join request; reachable join bookkeeping; RNG streams of at most 4 draws
h!(tx_join_legal_us, tx_join_step(0), 84);
//@h id=tx_join_legal_au915 props=C09,C10 tier=quick build=dev-au915 cost=90 timeout=1500
//@bounds AU915 join request (quick-tier instance: AU915 numbers its data rates differently from US915: DR2 / DR6); as tx_join_legal_us
h!(tx_join_legal_au915, tx_join_step(0), 84);
//@h id=tx_select_terminates_us props=C04,C09 tier=quick build=dev-us915 tbuilds=dev-au915 cost=200 timeout=2400
//@bounds US915 data frames; arbitrary mask (no invariant on it); enumerating RNG: success within 65 draws
h!(tx_select_terminates_us, select_terminates(0, false, 65), 84);
//@h id=tx_join_terminates_us props=C04,C09 tier=quick build=dev-us915 tbuilds=dev-au915 cost=200 timeout=2400
//@bounds US915 join; every reachable round-robin state (used offsets x current offset x start bank x visited banks); enumerating RNG: the 3-bit entropy-slice loop succeeds within 9 draws (90 slices)
h!(tx_join_terminates_us, join_terminates_slices(0, 9), 94);

// ---- regional constant tables against RP002-1.0.3 (one cheap harness per region build) -----------
/// number of defined TXPower indices (RP002 section 2.x.3 per region)
fn ref_tx_power_indices(r: region::Region) -> u8 {
    match r {
        #[cfg(feature = "region-eu868")]
        region::Region::EU868 => 8,
        #[cfg(feature = "region-eu433")]
        region::Region::EU433 => 6,
        #[cfg(feature = "region-in865")]
        region::Region::IN865 => 11,
        #[cfg(feature = "region-us915")]
        region::Region::US915 => 15,
        #[cfg(feature = "region-au915")]
        region::Region::AU915 => 15,
        #[allow(unreachable_patterns)]
        _ => 8, // AS923-1..4
    }
}
fn region_tables(ri: usize) {
    let r = rt::region_ut(ri);
    let mut c = region::Configuration::new(r);
    // the plan's own band check (what NewChannelReq / DlChannelReq / CFList / RXParamSetupReq are
    // validated with) against the reference band
    let f: u32 = kani::any();
    let own = c.frequency_valid(f);
    assert!(own == rt::freq_in_band(&mut c, f), "C09: the region's frequency check accepts a frequency outside its band (or rejects one inside)");
    // TXPower table: index i < N gives MaxEIRP - 2 i dB (US915: at most that), others are refused
    let pw: u8 = kani::any();
    match c.check_tx_power(pw) {
        Some(Some(v)) => {
            assert!(pw < ref_tx_power_indices(r), "C09: TXPower index beyond the region's table must be refused");
            let want = ref_max_eirp(r) - 2 * pw as i16;
            assert!(v as i16 <= want, "C09: TXPower index gives more than MaxEIRP - 2*index dB");
            assert!(rt::is_fixed(r) || v as i16 == want, "C09: TXPower index gives MaxEIRP - 2*index dB");
        }
        _ => assert!(pw >= ref_tx_power_indices(r), "C09: a defined TXPower index must be accepted"),
    }
    kani::cover!(own, "in-band frequency");
}
macro_rules! tables { ($name:ident, $ri:expr) => {
    #[kani::proof]
    #[kani::unwind(20)]
    fn $name() { region_tables($ri) }
}; }
//@h id=region_tables_eu868 props=C09 tier=quick build=dev-eu868 cost=5 timeout=600
//@bounds EU868: every u32 frequency against the RP002 band, every TXPower index 0..=255 against MaxEIRP - 2*index
//@encodes region::Configuration::{frequency_valid, check_tx_power}, EU868Region::tx_power_adjust, eu868_freq_check
tables!(region_tables_eu868, 0);
//@h id=region_tables_eu433 props=C09 tier=quick build=dev-eu433 cost=5 timeout=600
//@bounds EU433: as region_tables_eu868
tables!(region_tables_eu433, 0);
//@h id=region_tables_in865 props=C09 tier=quick build=dev-in865 cost=5 timeout=600
//@bounds IN865: as region_tables_eu868
tables!(region_tables_in865, 0);
//@h id=region_tables_as923_1 props=C09 tier=quick build=dev-as923 cost=5 timeout=600
//@bounds AS923-1: as region_tables_eu868
tables!(region_tables_as923_1, 0);
//@h id=region_tables_as923_4 props=C09 tier=quick build=dev-as923 cost=5 timeout=600
//@bounds AS923-4 (917..920 MHz): as region_tables_eu868
tables!(region_tables_as923_4, 3);
//@h id=region_tables_us915 props=C09 tier=quick build=dev-us915 cost=5 timeout=600
//@bounds US915: band 902..928 MHz, TXPower 0..=14 at most 30 - 2*index dBm
tables!(region_tables_us915, 0);
//@h id=region_tables_au915 props=C09 tier=quick build=dev-au915 cost=5 timeout=600
//@bounds AU915: band 915..928 MHz, TXPower 0..=14 at most 30 - 2*index dBm
tables!(region_tables_au915, 0);
