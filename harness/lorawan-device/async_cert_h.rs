//@file anchor=lorawan-device/src/async_device/mod.rs cfg=all(feature="region-eu868",feature="certification")
// C06 / C04 with the non-default `certification` feature: the async front-end transmits the
// answer to a certification-protocol request itself (handle_mac_response), outside any
// send().  Same contract-stub technique as async_mc_h.rs.
use super::*;
use super::verif_kani_lorawan_device_async_common::{
    any_rf, block_on, stub_rx2_complete, MRadio, MTimer, NoRng, Uq, G_FCNT,
};

static mut G_CANS_BUILT: Uq<u32> = Uq { magic: 0x6C727600CE477001, v: 0 }; // answers built by Mac::certification_setup_send
static mut G_CANS_FCNT: Uq<u32> = Uq { magic: 0x6C727600CE477002, v: 0 }; // counter the last answer was built with

/// contract of Mac::certification_setup_send (Certification::setup_send -> Session::prepare_buffer,
/// decided by the prepare_* harnesses): the answer is built with the current counter, which is not
/// consumed
fn stub_certification_setup_send<RNG: RngCore, const N: usize>(
    _m: &mut Mac,
    _rng: &mut RNG,
    _buf: &mut RadioBuffer<N>,
) -> mac::Result<(radio::TxConfig, mac::FcntUp)> {
    unsafe {
        if kani::any() {
            return Err(mac::Error::NotJoined);
        }
        G_CANS_BUILT.v += 1;
        G_CANS_FCNT.v = G_FCNT.v;
        Ok((radio::TxConfig { pw: kani::any(), rf: any_rf() }, G_FCNT.v))
    }
}

//@h id=async_cert_answer_counter props=C06 tier=quick build=dev-eu868-cert cost=60 timeout=1200
//@bounds `certification` feature: Device::handle_mac_response on the response kinds that make the front-end transmit or close a transaction by itself (UplinkPrepared: DutVersionsAns / EchoIncPayloadAns / RxAppCntAns; LinkCheckReq) from an arbitrary uplink counter, the radio failing at an arbitrary call position or not at all: an answer handed to the radio consumes its counter (or session expiry is reported)
//@encodes async_device::Device::handle_mac_response (certification branches)
//@assumes Mac::{certification_setup_send, rx2_complete} replaced by contract stubs (facts decided by prepare_* / rx2_complete_step_*); built without class-c
#[kani::proof]
#[kani::stub(Mac::certification_setup_send, stub_certification_setup_send)]
#[kani::stub(Mac::rx2_complete, stub_rx2_complete)]
#[kani::unwind(4)]
fn async_cert_answer_counter() {
    let start: u32 = kani::any();
    unsafe {
        G_FCNT.v = start;
        G_CANS_BUILT.v = 0;
    }
    let mut radio = MRadio { calls: 0, fail_at: kani::any(), tx_calls: 0, tx_ok: 0, always_rx: false };
    let mut mac = Mac::new(region::Configuration::new(region::Region::EU868), 20, 0);
    let mut rng = NoRng;
    let mut buf = RadioBuffer::<256>::new();
    let resp = if kani::any() { mac::Response::UplinkPrepared } else { mac::Response::LinkCheckReq };
    let r = block_on(Device::<MRadio, MTimer, NoRng, 256, 1>::handle_mac_response(
        &mut buf, &mut mac, &mut radio, &mut rng, resp, None));
    unsafe {
        if radio.tx_calls > 0 {
            let expired = matches!(r, Ok(Some(mac::Response::SessionExpired)));
            assert!(G_CANS_BUILT.v == 1 && radio.tx_calls == 1, "C06: one answer per request");
            assert!(G_FCNT.v > G_CANS_FCNT.v || (G_CANS_FCNT.v == u32::MAX && expired),
                "C06: a certification answer was handed to the radio but FCntUp was not advanced (nor session expiry reported): the next uplink reuses its counter");
        }
        assert!(G_FCNT.v <= start.saturating_add(1), "C06: at most one counter value is consumed");
        kani::cover!(radio.tx_ok == 1 && r.is_ok(), "answer transmitted");
        kani::cover!(radio.tx_calls == 1 && r.is_err(), "radio fault while answering");
    }
}
