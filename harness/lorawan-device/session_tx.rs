//@file anchor=lorawan-device/src/mac/session.rs
// C06-H1 / C12-H1,H2 / C08-H3: Session::prepare_buffer and Session::rx2_complete, one step from
// an arbitrary session against an executable reference model.
use super::*;
use super::verif_kani_lorawan_device_session_rx::{any_session, mc, session_same, uh};
use lorawan::default_crypto::model;
use mc::rt;

fn b0(dir: u8, addr: [u8; 4], fcnt: u32, len: usize) -> u128 {
    let mut b = [0u8; 16];
    b[0] = 0x49;
    b[5] = dir;
    b[6] = addr[0]; b[7] = addr[1]; b[8] = addr[2]; b[9] = addr[3];
    b[10] = fcnt as u8; b[11] = (fcnt >> 8) as u8; b[12] = (fcnt >> 16) as u8; b[13] = (fcnt >> 24) as u8;
    b[15] = len as u8;
    model::pack(&b)
}
fn ai(dir: u8, addr: [u8; 4], fcnt: u32, i: u8) -> u128 {
    let mut b = [0u8; 16];
    b[0] = 0x01;
    b[5] = dir;
    b[6] = addr[0]; b[7] = addr[1]; b[8] = addr[2]; b[9] = addr[3];
    b[10] = fcnt as u8; b[11] = (fcnt >> 8) as u8; b[12] = (fcnt >> 16) as u8; b[13] = (fcnt >> 24) as u8;
    b[15] = i;
    model::pack(&b)
}

/// reference: next lower data rate the region defines
fn ref_lower(region: &region::Configuration, dr: u8) -> Option<u8> {
    let mut best = None;
    let mut d = 0u8;
    while d < 15 {
        if d < dr && region.get_datarate(d).is_some() {
            best = Some(d);
        }
        d += 1;
    }
    best
}

const TXN: usize = 256;
const MAXP: usize = 18;

fn prepare_step(port0: bool, cids: &[u8], sticky: &[u8]) {
    crate::mac::verif_kani_lorawan_device_mac_common::vinit();
    let probe: usize = kani::any();
    model::reset(probe);
    // functional consistency of the block cipher model is not needed here (every keystream block
    // has a distinct input) and its Ackermann loop is unrolled once per keystream iteration
    unsafe { model::CONSISTENT.v = false; }
    let region = region::Configuration::new(rt::region_ut(0));
    let cfg = mc::any_configuration();
    kani::assume(mc::cfg_inv(&cfg, &region));
    let mut s = any_session(cids);
    let pre = s.clone();
    let payload: [u8; MAXP] = kani::any();
    let plen: usize = if port0 { 0 } else { kani::any() };
    kani::assume(plen <= MAXP);
    let fport: u8 = if port0 { 0 } else { kani::any() };
    kani::assume(port0 || fport != 0);
    let confirmed: bool = kani::any();
    let mut tx = RadioBuffer::<TXN>::new();
    let send = SendData { data: &payload[..plen], fport, confirmed };

    let fcnt = s.prepare_buffer::<TXN>(&send, &mut tx, &cfg, &region);

    // ---- reference ---------------------------------------------------------------------------
    crate::vcheck!(fcnt == pre.fcnt_up, "C06: the frame is built with the current FCntUp");
    crate::vcheck!(s.fcnt_up == pre.fcnt_up, "C06: building a frame does not consume the counter");
    let q = uh::pending(&pre.uplink);
    let fol = if port0 { 0 } else { q.len() };
    let body = if port0 { q.len() } else { plen };
    let has_port = true; // the implementation always writes FPort for a data request
    let total = 1 + 7 + fol + 1 + body + 4;
    let f = tx.as_ref_for_read();
    crate::vcheck!(f.len() == total, "C12: uplink length = MHDR + FHDR + FOpts + FPort + FRMPayload + MIC");
    crate::vcheck!(f[0] == if confirmed { 0x80 } else { 0x40 }, "C12: MHDR carries the message type the application requested");
    let addr = *pre.devaddr.as_wire_bytes();
    crate::vcheck!(f[1] == addr[0] && f[2] == addr[1] && f[3] == addr[2] && f[4] == addr[3], "C12: DevAddr of the session");
    let lower = ref_lower(&region, cfg.data_rate as u8).is_some();
    let exp_fctrl = (if cfg.adr_enabled { 0x80 } else { 0 })
        | (if cfg.adr_enabled && pre.adr_ack_cnt >= 64 && lower { 0x40 } else { 0 })
        | (if pre.uplink.confirms_downlink() { 0x20 } else { 0 })
        | fol as u8;
    crate::vcheck!(f[5] & 0x80 == exp_fctrl & 0x80, "C12: ADR bit exactly when ADR is enabled");
    crate::vcheck!(f[5] & 0x40 == exp_fctrl & 0x40, "C12: ADRACKReq exactly when ADR on, >= 64 uplinks without downlink and a lower data rate exists");
    crate::vcheck!(f[5] & 0x20 == exp_fctrl & 0x20, "C12: ACK bit exactly when an accepted confirmed downlink is unacknowledged");
    crate::vcheck!(f[5] & 0x10 == 0, "C12: FPending is not set on uplinks");
    crate::vcheck!(f[5] & 0x0f == fol as u8, "C08: FOptsLen = pending MAC answers");
    crate::vcheck!(f[6] == pre.fcnt_up as u8 && f[7] == (pre.fcnt_up >> 8) as u8, "C06: low 16 bits of FCntUp on the wire");
    let k: usize = kani::any();
    if k < fol {
        crate::vcheck!(f[8 + k] == q[k], "C08: FOpts carries the pending answers in order");
    }
    crate::vcheck!(f[8 + fol] == fport, "C12: FPort");
    crate::vcheck!(!s.uplink.confirms_downlink(), "C12: the ACK is sent once");
    crate::vcheck!(s.confirmed == confirmed, "C12: confirmed flag remembered for the receive windows");
    // crypto: one keystream block per 16 bytes under the key selected by FPort, full counter
    let nblocks = (body + 15) / 16;
    unsafe {
        crate::vcheck!(model::ENC_N.v == nblocks, "C06: keystream blocks");
        let key = if port0 { model::pack(pre.nwkskey.as_ref()) } else { model::pack(pre.appskey.as_ref()) };
        let j: usize = kani::any();
        if j < nblocks {
            let e = model::ENC.v[j];
            crate::vcheck!(e.key == key, "C06: FRMPayload key by FPort");
            crate::vcheck!(e.input == ai(0, addr, pre.fcnt_up, (j + 1) as u8), "C06: encryption uses the full 32-bit FCntUp (block A_i)");
            let m: usize = kani::any();
            if m < body && m / 16 == j {
                let plain = if port0 { q[m] } else { payload[m] };
                crate::vcheck!(f[9 + fol + m] == plain ^ model::byte(e.output, m % 16), "C06: ciphertext = plaintext xor keystream");
            }
        }
        crate::vcheck!(model::MIC_N.v == 1, "C06: one MIC");
        let mm = &model::MICS.v[0];
        crate::vcheck!(mm.key == model::pack(pre.nwkskey.as_ref()), "C06: MIC under NwkSKey");
        crate::vcheck!(mm.b0 == b0(0, addr, pre.fcnt_up, total - 4) && mm.len == total - 4, "C06: MIC uses the full 32-bit FCntUp (block B0)");
        if probe < total - 4 {
            crate::vcheck!(mm.probe == f[probe], "C06: MIC covers the frame");
        }
        crate::vcheck!(f[total - 4] == mm.out[0] && f[total - 3] == mm.out[1] && f[total - 2] == mm.out[2] && f[total - 1] == mm.out[3], "C06: MIC placed at the end");
    }
    // stickiness: RXParamSetupAns / RXTimingSetupAns / DlChannelAns stay queued, others are sent once
    let after = uh::pending(&s.uplink);
    let mut exp_len = 0;
    let mut i = 0;
    while i < sticky.len() {
        exp_len += 1 + uh::ul_len(sticky[i]);
        i += 1;
    }
    crate::vcheck!(after.len() == exp_len, "C08: exactly the RXParamSetup/RXTimingSetup/DlChannel answers stay queued after an uplink");
    // compare contents: the retained commands are the sticky subsequence of the pending queue
    let mut src = 0;
    let mut dst = 0;
    let mut ci = 0;
    while ci < cids.len() {
        let l = 1 + uh::ul_len(cids[ci]);
        let keep = cids[ci] == 0x05 || cids[ci] == 0x08 || cids[ci] == 0x0A;
        if keep {
            let mut t = 0;
            while t < l {
                crate::vcheck!(after[dst + t] == q[src + t], "C08: a retained answer is repeated unchanged");
                t += 1;
            }
            dst += l;
        }
        src += l;
        ci += 1;
    }
    kani::cover!(port0 || plen == MAXP, "18-byte payload (two keystream blocks)");
    kani::cover!(f[5] & 0x40 != 0, "ADRACKReq set");
}

//@h id=prepare_port_n props=C06,C08,C12 tier=quick build=dev-eu868 tbuilds=dev-eu433,dev-in865 cost=120 timeout=1500
//@bounds arbitrary session with pending answers LinkADRAns, RXParamSetupAns, DevStatusAns, RXTimingSetupAns, DlChannelAns (9 bytes, symbolic payloads), arbitrary configuration under I-dr, FPort 1..=255, payload length 0..=18 with symbolic content, confirmed or not
//@encodes Session::prepare_buffer, next_lower_datarate, DataFrame::build_into, securityhelpers::*, Uplink::clear_mac_commands(true), RadioBuffer::extend_from_slice
//@assumes AES/CMAC are uninterpreted functions; payload within the regional maximum (documented precondition of send)
#[kani::proof]
#[kani::unwind(24)]
fn prepare_port_n() {
    prepare_step(false, &[0x03, 0x05, 0x06, 0x08, 0x0A], &[0x05, 0x08, 0x0A]);
}

//@h id=prepare_port_0 props=C06,C08,C12 tier=quick build=dev-eu868 cost=120 timeout=1500
//@bounds as prepare_port_n, FPort 0 with empty application data: the pending answers travel encrypted in FRMPayload
//@encodes Session::prepare_buffer (Payload::MacCommands path)
#[kani::proof]
#[kani::unwind(24)]
fn prepare_port_0() {
    prepare_step(true, &[0x03, 0x05, 0x06, 0x08, 0x0A], &[0x05, 0x08, 0x0A]);
}

//@h id=prepare_full_queue props=C06,C08,C12 tier=quick build=dev-eu868 cost=120 timeout=1500
//@bounds pending queue full (15 bytes: 5 x DevStatusAns), FPort 1..=255
#[kani::proof]
#[kani::unwind(24)]
fn prepare_full_queue() {
    prepare_step(false, &[0x06, 0x06, 0x06, 0x06, 0x06], &[]);
}

fn rx2_step(ri: usize) {
    crate::mac::verif_kani_lorawan_device_mac_common::vinit();
    let mut region = rt::any_region(rt::region_ut(ri));
    let mut cfg = mc::any_configuration();
    kani::assume(mc::cfg_inv(&cfg, &region));
    kani::assume(rt::inv(&mut region, cfg.data_rate));
    let mut s = any_session(&[0x05]);
    let pre = s.clone();
    let cfg0 = cfg;
    let resp = s.rx2_complete(&mut cfg, &region);
    if pre.fcnt_up == u32::MAX {
        crate::vcheck!(matches!(resp, Response::SessionExpired), "C06: counter space exhausted is reported as SessionExpired");
        crate::vcheck!(s.fcnt_up == u32::MAX, "C06: FCntUp never wraps");
    } else {
        crate::vcheck!(s.fcnt_up == pre.fcnt_up + 1, "C06: closing the receive windows advances FCntUp by exactly one");
        crate::vcheck!(matches!(resp, Response::NoAck) == pre.confirmed && matches!(resp, Response::RxComplete) == !pre.confirmed, "C12: NoAck for confirmed uplinks, RxComplete otherwise");
        let mut exp_cnt = pre.adr_ack_cnt;
        let mut exp_dr = cfg0.data_rate as u8;
        if cfg0.adr_enabled {
            exp_cnt = pre.adr_ack_cnt.saturating_add(1);
            if exp_cnt >= 96 && (exp_cnt - 64) % 32 == 0 {
                if let Some(d) = ref_lower(&region, exp_dr) {
                    exp_dr = d;
                }
            }
        }
        crate::vcheck!(s.adr_ack_cnt == exp_cnt, "C12: ADR ACK counter counts uplinks without downlink only while ADR is enabled");
        crate::vcheck!(cfg.data_rate as u8 == exp_dr, "C12: data rate steps to the next lower defined rate exactly after 96, 128, ... uplinks without downlink");
        kani::cover!(cfg.data_rate as u8 != cfg0.data_rate as u8, "ADR back-off step");
    }
    let mut c2 = cfg;
    c2.data_rate = cfg0.data_rate;
    crate::vcheck!(mc::cfg_same(&c2, &cfg0), "C12: nothing but the data rate changes on its own");
    crate::vcheck!(mc::cfg_inv(&cfg, &region), "C04/C09: configuration invariant after ADR back-off");
    crate::vcheck!(rt::inv(&mut region, cfg.data_rate), "C04/C09: ADR back-off selected a data rate for which no enabled channel exists (transmission can never start)");
}

//@h id=rx2_complete_step_dyn props=C04,C06,C09,C12 tier=quick build=dev-eu868 tbuilds=dev-eu433,dev-in865,dev-as923 cost=30 timeout=900
//@bounds EU868: arbitrary session (all counter values incl. 2^32-1, all ADR counter values), arbitrary configuration under I-dr, arbitrary plan under I-dyn
//@encodes Session::rx2_complete, next_lower_datarate
#[kani::proof]
#[kani::unwind(74)]
fn rx2_complete_step_dyn() {
    rx2_step(0);
}

//@h id=rx2_complete_step_us props=C04,C06,C09,C12 tier=quick build=dev-us915 tbuilds=dev-au915 cost=30 timeout=900
//@bounds US915: as above with an arbitrary 72-channel mask under I-fix (DR4 <-> DR3 bandwidth change)
//@encodes Session::rx2_complete, next_lower_datarate
#[kani::proof]
#[kani::unwind(74)]
fn rx2_complete_step_us() {
    rx2_step(0);
}
