//@file anchor=lorawan-device/src/async_device/mod.rs cfg=feature="region-eu868"
// Shared infrastructure of the async front-end harnesses (async_h.rs, async_mc_h.rs): ghost state
// of the MAC contract, contract stubs, a radio that fails at a symbolic call position, an
// immediate timer and a one-poll executor.  No dependency on the MAC-level harness modules, so
// that it also builds with the `multicast` feature.
use super::*;
pub(crate) use core::future::Future;
use core::pin::pin;
use core::task::{Context, Poll, Waker};

/// Every harness static carries a unique tag: Kani resolves a *constant* whose bytes equal a
/// static's initial bytes to that static (rustc interns allocations by content), so writing to a
/// `static mut FLAG: bool = false` silently changed constants such as `DR::_0` in the code under
/// test (found on macs_r0_linkadr2, see DESIGN 9.4).  Unique initial content rules this out.
#[repr(C)]
pub(crate) struct Uq<T> {
    pub magic: u64,
    pub v: T,
}

// ---- ghost state of the MAC contract (DESIGN 2.4: exactly the facts proved by the MAC harnesses)
pub(crate) static mut G_FCNT: Uq<u32> = Uq { magic: 0x6C727600B8A9E6BE, v: 0 }; // the session's FCntUp
pub(crate) static mut G_BUILT: Uq<u32> = Uq { magic: 0x6C72760095C36D52, v: 0 }; // number of frames built by Mac::send
pub(crate) static mut G_BUILT_FCNT: Uq<u32> = Uq { magic: 0x6C727600A67E892A, v: 0 }; // counter the last frame was built with
pub(crate) static mut G_RX_CALLS: Uq<u32> = Uq { magic: 0x6C727600B81D504B, v: 0 };
/// (frequency, max payload, set) of the last receive configuration handed to the radio
pub(crate) static mut G_LAST_RXCFG: Uq<(u32, u8, bool)> = Uq { magic: 0x6C727600B81D504C, v: (0, 0, false) };
static mut G_EXPIRED_REPORTED: Uq<bool> = Uq { magic: 0x6C7276000ED10A21, v: false };

pub(crate) fn any_rf() -> RfConfig {
    RfConfig {
        frequency: kani::any(),
        bb: lora_modulation::BaseBandModulationParams::new(
            lora_modulation::SpreadingFactor::_7, lora_modulation::Bandwidth::_125KHz, lora_modulation::CodingRate::_4_5),
        max_payload_len: kani::any(),
    }
}

/// contract of Mac::send for a joined device (proved by prepare_* / tx_* harnesses): the frame is
/// built with the current counter, the counter is not consumed
pub(crate) fn stub_send<RNG: RngCore, const N: usize>(
    _m: &mut Mac,
    _rng: &mut RNG,
    _buf: &mut RadioBuffer<N>,
    _d: &SendData<'_>,
) -> mac::Result<(radio::TxConfig, mac::RxWindows, mac::FcntUp)> {
    unsafe {
        G_BUILT.v += 1;
        G_BUILT_FCNT.v = G_FCNT.v;
        Ok((radio::TxConfig { pw: kani::any(), rf: any_rf() }, mac::RxWindows { rx1: any_rf(), rx2: any_rf() }, G_FCNT.v))
    }
}
/// contract of Mac::handle_rx in the Joined state (proved by rx_* harnesses): either nothing
/// changes (NoUpdate), or the frame is accepted and the counter advances by one, or the counter
/// space is exhausted and SessionExpired is reported without wrapping
pub(crate) fn stub_handle_rx<const N: usize, const D: usize>(
    _m: &mut Mac,
    _buf: &mut RadioBuffer<N>,
    _dl: &mut Vec<Downlink, D>,
    _snr: i8,
    _rf: &RfConfig,
) -> mac::Response {
    unsafe {
        G_RX_CALLS.v += 1;
        // C05 (front-end half): the size limit a frame is judged against is that of the window
        // the radio was last configured for, i.e. the one the frame was received in
        assert!(!G_LAST_RXCFG.v.2 || (G_LAST_RXCFG.v.0 == _rf.frequency && G_LAST_RXCFG.v.1 == _rf.max_payload_len),
            "C05/C10: a received frame is judged against the parameters (maximum size) of the window it was received in");
        if kani::any() {
            mac::Response::NoUpdate
        } else if G_FCNT.v == u32::MAX {
            mac::Response::SessionExpired
        } else {
            G_FCNT.v += 1;
            mac::Response::DownlinkReceived(kani::any())
        }
    }
}
/// contract of Mac::rx2_complete in the Joined state (proved by rx2_complete_step_*)
pub(crate) fn stub_rx2_complete(_m: &mut Mac) -> mac::Response {
    unsafe {
        if G_FCNT.v == u32::MAX {
            mac::Response::SessionExpired
        } else {
            G_FCNT.v += 1;
            if kani::any() { mac::Response::NoAck } else { mac::Response::RxComplete }
        }
    }
}
pub(crate) fn stub_get_rx_delay(_m: &Mac, _f: &Frame, w: &Window) -> u32 {
    let d: u32 = kani::any();
    kani::assume(d >= 1000 && d <= 15000);
    match w {
        Window::_1 => d,
        Window::_2 => d + 1000,
    }
}
pub(crate) fn stub_get_fcnt_up(_m: &Mac) -> Option<mac::FcntUp> {
    unsafe { Some(G_FCNT.v) }
}

// ---- radio / timer models ------------------------------------------------------------------------
pub(crate) struct MRadio {
    pub(crate) calls: usize,
    pub(crate) fail_at: usize,
    pub(crate) tx_calls: usize,
    pub(crate) tx_ok: usize,
    /// every receive window receives a frame (no window times out): keeps a harness to RX1
    pub(crate) always_rx: bool,
}
impl MRadio {
    fn step(&mut self) -> Result<(), ()> {
        let k = self.calls;
        self.calls += 1;
        if k == self.fail_at { Err(()) } else { Ok(()) }
    }
}
impl radio::PhyRxTx for MRadio {
    type PhyError = ();
    const MAX_RADIO_POWER: u8 = 20;
    async fn tx(&mut self, _config: radio::TxConfig, _buf: &[u8]) -> Result<u32, ()> {
        self.tx_calls += 1;
        self.step()?;
        self.tx_ok += 1;
        let ms: u32 = kani::any();
        kani::assume(ms < 0x7FFF_0000);
        Ok(ms)
    }
    async fn setup_rx(&mut self, _config: radio::RxConfig) -> Result<(), ()> {
        unsafe { G_LAST_RXCFG.v = (_config.rf.frequency, _config.rf.max_payload_len, true); }
        self.step()
    }
    async fn rx_continuous(&mut self, _rx_buf: &mut [u8]) -> Result<(usize, radio::RxQuality), ()> {
        self.step()?;
        let n: usize = kani::any();
        kani::assume(n <= 255);
        Ok((n, radio::RxQuality::new(kani::any(), kani::any())))
    }
    async fn rx_single(&mut self, _buf: &mut [u8]) -> Result<radio::RxStatus, ()> {
        self.step()?;
        if self.always_rx || kani::any() {
            let n: usize = kani::any();
            kani::assume(n <= 255);
            Ok(radio::RxStatus::Rx(n, radio::RxQuality::new(kani::any(), kani::any())))
        } else {
            Ok(radio::RxStatus::RxTimeout)
        }
    }
    async fn low_power(&mut self) -> Result<(), ()> {
        self.step()
    }
}
impl Timings for MRadio {
    fn get_rx_window_lead_time_ms(&self) -> u32 {
        let l: u32 = kani::any();
        kani::assume(l <= 1000);
        l
    }
}
pub(crate) struct MTimer;
impl radio::Timer for MTimer {
    fn reset(&mut self) {}
    async fn at(&mut self, _millis: u64) {}
    async fn delay_ms(&mut self, _millis: u64) {}
}
pub(crate) struct NoRng;
impl RngCore for NoRng {
    fn next_u32(&mut self) -> u32 { kani::any() }
    fn next_u64(&mut self) -> u64 { kani::any() }
    fn fill_bytes(&mut self, _d: &mut [u8]) {}
    fn try_fill_bytes(&mut self, _d: &mut [u8]) -> core::result::Result<(), rand_core::Error> { Ok(()) }
}

pub(crate) fn block_on<F: Future>(f: F) -> F::Output {
    let mut f = pin!(f);
    let w = Waker::noop();
    let mut cx = Context::from_waker(&w);
    match f.as_mut().poll(&mut cx) {
        Poll::Ready(v) => v,
        Poll::Pending => {
            kani::assume(false);
            unreachable!()
        }
    }
}

