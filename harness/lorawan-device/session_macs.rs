//@file anchor=lorawan-device/src/mac/session.rs
// C04-H1 / C08-H1: Session::handle_downlink_macs on concrete CID sequences with every payload
// byte symbolic, from an arbitrary invariant-satisfying state, against an executable reference
// of LoRaWAN 1.0.x section 5 + RP002.
use super::*;
use super::verif_kani_lorawan_device_session_rx::{any_session, mc, uh};
use mc::rt;

/// payload length of a downlink MAC command by CID
const fn dl_len(cid: u8) -> usize {
    match cid {
        0x02 => 2,
        0x03 => 4,
        0x04 => 1,
        0x05 => 4,
        0x06 => 0,
        0x07 => 5,
        0x08 => 1,
        0x09 => 1,
        0x0A => 4,
        0x0D => 5,
        _ => 0,
    }
}

const BUF: usize = 24;

/// Reference interpretation of ChMaskCntl for one LinkADRReq on a 9-bank mask.
/// Returns false when the control value is RFU for the plan type.
fn ref_mask_update(fixed: bool, m: &mut [u8; 9], ctl: u8, lo: u8, hi: u8) -> bool {
    if fixed {
        match ctl {
            0 | 1 | 2 | 3 => {
                m[2 * ctl as usize] = lo;
                m[2 * ctl as usize + 1] = hi;
            }
            4 => {
                m[8] = lo; // channels 64..71; upper byte RFU
            }
            5 => {
                let mut i = 0;
                while i < 8 {
                    m[i] = if lo & (1 << i) != 0 { 0xFF } else { 0 };
                    i += 1;
                }
                m[8] = lo;
            }
            6 | 7 => {
                let v = if ctl == 6 { 0xFF } else { 0 };
                let mut i = 0;
                while i < 8 {
                    m[i] = v;
                    i += 1;
                }
                m[8] = lo;
            }
            _ => return false,
        }
        true
    } else {
        match ctl {
            0 => {
                m[0] = lo;
                m[1] = hi;
                true
            }
            6 => {
                m[0] = 0xFF;
                m[1] = 0xFF;
                true
            }
            _ => false, // 1..=5 and 7 are RFU in every 16-channel dynamic plan (RP002)
        }
    }
}

fn defined_dr(region: &region::Configuration, dr: u8) -> bool {
    dr < 15 && region.get_datarate(dr).is_some()
}

fn macs_step(ri: usize, cids: &[u8]) {
    crate::mac::verif_kani_lorawan_device_mac_common::vinit();
    let r = rt::region_ut(ri);
    let fixed = rt::is_fixed(r);
    let mut region = rt::any_region(r);
    let mut cfg = mc::any_configuration();
    kani::assume(mc::cfg_inv(&cfg, &region));
    kani::assume(rt::inv(&mut region, cfg.data_rate));
    let mut s = any_session(&[]);
    let snr: i8 = kani::any();

    // the command stream: CIDs concrete, payload bytes symbolic (DESIGN R1)
    let mut data = [0u8; BUF];
    let mut n = 0;
    let mut i = 0;
    while i < cids.len() {
        data[n] = cids[i];
        n += 1;
        let mut j = 0;
        while j < dl_len(cids[i]) {
            data[n] = kani::any();
            n += 1;
            j += 1;
        }
        i += 1;
    }
    let cfg0 = cfg;
    let mut region0 = region.clone();
    let mut mask0 = [0u8; 9];
    let mut b = 0;
    while b < 9 {
        mask0[b] = rt::mask_bank(&mut region0, b);
        b += 1;
    }

    s.handle_downlink_macs(&mut cfg, &mut region, parse_downlink_mac_commands(&data[..n]), snr);

    // ---- C04: the state still satisfies the invariants the transmit path relies on ----------
    crate::vcheck!(mc::cfg_inv(&cfg, &region), "C04/C08/C09: MAC configuration invariant (defined data rate, legal offsets/power) broken by a MAC command");
    crate::vcheck!(rt::inv(&mut region, cfg.data_rate), "C04/C09: channel plan left without a usable channel for the current data rate (the device can no longer transmit)");

    // ---- C08: answers and effects --------------------------------------------------------------
    let ans = uh::pending(&s.uplink);
    let mut a = 0; // cursor into the answers
    let mut p = 0; // cursor into the request stream
    let mut exp_cfg = cfg0; // expected configuration, updated request by request
    let mut exp_mask = mask0;
    let mut ci = 0;
    let mut room = true; // answers are appended while they fit into 15 bytes
    // expected channel table of a dynamic plan: (present, uplink frequency, RX1 frequency)
    let mut exp_ch = [(false, 0u32, 0u32); 16];
    let mut rx1_free = [false; 16];
    if !fixed {
        let mut c = 0;
        while c < 16 {
            let (present, ul, dl, _) = rt::rd_channel_info(&mut region0, c);
            exp_ch[c] = (present, ul, dl);
            c += 1;
        }
    }
    while ci < cids.len() {
        let cid = cids[ci];
        let pl = p + 1;
        match cid {
            0x03 => {
                // contiguous block of LinkADRReq
                let mut k = 0;
                let mut m = exp_mask;
                let mut rfu = false;
                let mut last = pl;
                while ci + k < cids.len() && cids[ci + k] == 0x03 {
                    let q = p + 5 * k + 1;
                    let ctl = (data[q + 3] >> 4) & 7;
                    if !ref_mask_update(fixed, &mut m, ctl, data[q + 1], data[q + 2]) {
                        rfu = true;
                    }
                    last = q;
                    k += 1;
                }
                let dr = data[last] >> 4;
                let pw = data[last] & 0x0f;
                let dr_valid = dr == 15 || defined_dr(&region0, dr);
                let pw_valid = pw == 15 || region0.check_tx_power(pw).is_some();
                let new_dr = if dr == 15 { cfg0_dr(&exp_cfg) } else { dr };
                // does the resulting mask leave a usable channel?
                let usable = if fixed {
                    if dr_valid {
                        let bw500 = region0.get_datarate(new_dr).map(|d| d.bandwidth == lora_modulation::Bandwidth::_500KHz).unwrap_or(false);
                        if bw500 { m[8] != 0 } else { m[0] | m[1] | m[2] | m[3] | m[4] | m[5] | m[6] | m[7] != 0 }
                    } else {
                        true
                    }
                } else {
                    let mut any = false;
                    let mut c = 0;
                    while c < 16 {
                        let (present, _, _, _) = rt::rd_channel_info(&mut region0, c);
                        if present && m[c >> 3] & (1 << (c & 7)) != 0 {
                            any = true;
                        }
                        c += 1;
                    }
                    any
                };
                let must_nak_mask = rfu || !usable;
                // k identical answers
                let mut status = 0u8;
                let mut t = 0;
                while t < k {
                    if room && a + 2 <= 15 && a + 2 <= ans.len() {
                        crate::vcheck!(ans[a] == 0x03, "C08: LinkADRAns expected at this position (one answer per request, in request order)");
                        if t == 0 {
                            status = ans[a + 1];
                        } else {
                            crate::vcheck!(ans[a + 1] == status, "C08: a LinkADRReq block is answered with identical copies");
                        }
                        a += 2;
                    } else {
                        room = false;
                    }
                    t += 1;
                }
                if room {
                    crate::vcheck!(status & 0xF8 == 0, "C08: LinkADRAns RFU bits");
                    if must_nak_mask {
                        crate::vcheck!(status & 1 == 0, "C08: LinkADRReq with an RFU ChMaskCntl or a mask leaving no usable channel must be rejected");
                    }
                    if !dr_valid {
                        crate::vcheck!(status & 2 == 0, "C08: LinkADRReq with an undefined data rate must be rejected");
                    }
                    if !pw_valid {
                        crate::vcheck!(status & 4 == 0, "C08: LinkADRReq with an undefined TX power must be rejected");
                    }
                    if status == 7 {
                        exp_cfg.data_rate = DR::from(new_dr);
                        if pw != 15 {
                            exp_cfg.tx_power = region0.check_tx_power(pw).unwrap();
                        }
                        exp_mask = m;
                    }
                }
                p += 5 * k;
                ci += k;
                continue;
            }
            0x05 => {
                let dls = data[pl];
                let off = (dls >> 4) & 7;
                let r2 = dls & 0x0f;
                let freq = (data[pl + 1] as u32 | (data[pl + 2] as u32) << 8 | (data[pl + 3] as u32) << 16) * 100;
                if room && a + 2 <= 15 && a + 2 <= ans.len() {
                    crate::vcheck!(ans[a] == 0x05, "C08: RXParamSetupAns expected at this position");
                    let st = ans[a + 1];
                    crate::vcheck!(st & 0xF8 == 0, "C08: RXParamSetupAns RFU bits");
                    if !rt::freq_in_band(&mut region0, freq) {
                        crate::vcheck!(st & 1 == 0, "C08: RXParamSetupReq with an out-of-band RX2 frequency must be rejected");
                    }
                    if r2 != 15 && !defined_dr(&region0, r2) {
                        crate::vcheck!(st & 2 == 0, "C08: RXParamSetupReq with an undefined RX2 data rate must be rejected");
                    }
                    if region0.rx1_dr_offset_validate(off).is_none() {
                        crate::vcheck!(st & 4 == 0, "C08: RXParamSetupReq with an RX1 offset beyond the regional maximum must be rejected");
                    }
                    if st == 7 {
                        exp_cfg.rx2_frequency = Some(freq);
                        if r2 != 15 {
                            exp_cfg.rx2_data_rate = Some(DR::from(r2));
                        }
                        exp_cfg.rx1_dr_offset = off;
                    }
                    a += 2;
                } else {
                    room = false;
                }
            }
            0x06 => {
                if room && a + 3 <= 15 && a + 3 <= ans.len() {
                    crate::vcheck!(ans[a] == 0x06, "C08: DevStatusAns expected at this position");
                    if snr >= -32 && snr <= 31 {
                        crate::vcheck!(ans[a + 2] == (snr as u8) & 0x3f, "C08: DevStatusAns margin is the 6-bit SNR");
                    }
                    a += 3;
                } else {
                    room = false;
                }
            }
            0x08 => {
                let del = data[pl] & 0x0f;
                if room && a + 1 <= 15 && a + 1 <= ans.len() {
                    crate::vcheck!(ans[a] == 0x08, "C08: RXTimingSetupAns expected at this position");
                    a += 1;
                } else {
                    room = false;
                }
                // RXTimingSetupReq has no status: it always takes effect
                exp_cfg.rx1_delay = if del == 0 { 1000 } else { del as u32 * 1000 };
            }
            0x07 | 0x0A => {
                if !fixed {
                    if room && a + 2 <= 15 && a + 2 <= ans.len() {
                        crate::vcheck!(ans[a] == cid, "C08: NewChannelAns / DlChannelAns expected at this position");
                        crate::vcheck!(ans[a + 1] & 0xFC == 0, "C08: answer RFU bits");
                        // effect on the channel table: exactly what a fully acknowledged request
                        // commands, nothing for a rejected one (LoRaWAN 1.0.4 5.6 / 5.7)
                        let st = ans[a + 1] & 3;
                        let idx = data[pl] as usize;
                        let freq = ((data[pl + 1] as u32) | ((data[pl + 2] as u32) << 8) | ((data[pl + 3] as u32) << 16)) * 100;
                        let in_band = rt::freq_in_band(&mut region0, freq);
                        if cid == 0x0A {
                            if !in_band {
                                crate::vcheck!(st & 1 == 0, "C08/C10: DlChannelReq with a frequency the device cannot use must be rejected");
                            }
                            if idx >= 16 || !exp_ch[idx & 15].0 {
                                crate::vcheck!(st & 2 == 0, "C08/C10: DlChannelReq for an undefined channel must be rejected");
                            }
                            if st == 3 && idx < 16 {
                                exp_ch[idx].2 = freq;
                            }
                        } else {
                            if freq != 0 && !in_band {
                                crate::vcheck!(st & 1 == 0, "C08/C09: NewChannelReq with a frequency the device cannot use must be rejected");
                            }
                            if st == 3 && idx < 16 {
                                exp_ch[idx] = if freq == 0 { (false, 0, 0) } else { (true, freq, freq) };
                                rx1_free[idx] = freq != 0; // whether a redefinition keeps an earlier DlChannel remap is not specified
                            }
                        }
                        a += 2;
                    } else {
                        room = false;
                    }
                }
            }
            _ => {}
        }
        p += 1 + dl_len(cid);
        ci += 1;
    }
    if room {
        crate::vcheck!(ans.len() == a, "C08: no answers beyond one per handled request");
    }
    crate::vcheck!(ans.len() <= 15, "C08: pending answers never exceed 15 bytes");
    if room && !fixed {
        let c: usize = kani::any();
        kani::assume(c < 16);
        let (present, ul, dl, _) = rt::rd_channel_info(&mut region, c);
        crate::vcheck!(present == exp_ch[c].0 && (!present || ul == exp_ch[c].1), "C08/C09: channel definitions change exactly as acknowledged NewChannelReq commands say, and not at all for rejected or other commands");
        crate::vcheck!(!present || rx1_free[c] || dl == exp_ch[c].2, "C08/C10: RX1 frequencies change exactly as acknowledged DlChannelReq commands say, and not at all for rejected ones");
    }
    // effects on the MAC configuration: exactly what the fully-acknowledged requests commanded
    if room {
        // split by what the fields feed: data rate / TX power (C09), receive windows (C10)
        crate::vcheck!(cfg.data_rate == exp_cfg.data_rate && cfg.tx_power == exp_cfg.tx_power && cfg.adr_enabled == exp_cfg.adr_enabled,
            "C08/C09: data rate and TX power must change exactly as the acknowledged LinkADRReq commands, and not at all for rejected ones");
        crate::vcheck!(cfg.rx1_delay == exp_cfg.rx1_delay && cfg.rx1_dr_offset == exp_cfg.rx1_dr_offset && cfg.rx2_data_rate == exp_cfg.rx2_data_rate && cfg.rx2_frequency == exp_cfg.rx2_frequency,
            "C08/C10: RX1 delay, RX1 data-rate offset and RX2 parameters must change exactly as the acknowledged RXTimingSetupReq / RXParamSetupReq command, and not at all for rejected ones");
        crate::vcheck!(mc::cfg_same(&cfg, &exp_cfg), "C08: the configuration must change exactly as the acknowledged requests command, and not at all for rejected ones");
        if !has_channel_cmd(cids) {
            let mut b = 0;
            while b < 9 {
                let got = rt::mask_bank(&mut region, b);
                if fixed || b < 2 {
                    crate::vcheck!(got == exp_mask[b], "C08: the channel mask must be exactly the commanded one after an acknowledged LinkADRReq, and unchanged otherwise");
                }
                b += 1;
            }
        }
    }
    kani::cover!(room && ans.len() == a, "every expected answer queued and room left");
}

fn cfg0_dr(c: &super::super::Configuration) -> u8 {
    c.data_rate as u8
}

fn has_channel_cmd(cids: &[u8]) -> bool {
    let mut i = 0;
    let mut f = false;
    while i < cids.len() {
        if cids[i] == 0x07 {
            f = true;
        }
        i += 1;
    }
    f
}

macro_rules! macs {
    ($name:ident, $ri:expr, [$($cid:expr),*]) => {
        #[kani::proof]
        #[kani::unwind(74)]
        fn $name() {
            macs_step($ri, &[$($cid),*]);
        }
    };
}

// ---- quick tier: every single handled CID, LinkADR blocks of 1..3, in one dynamic and one fixed region
//@h id=macs_r0_linkadr1 props=C04,C08,C09 tier=quick build=dev-eu868 tbuilds=dev-eu433,dev-in865,dev-as923 cost=60 timeout=1200
//@bounds EU868; arbitrary plan state under I-dyn, arbitrary configuration under I-dr; LinkADRReq with all 2^32 payloads (every DR, TXPower, ChMask, ChMaskCntl, NbTrans)
//@encodes Session::handle_downlink_macs, region channel_mask_update/validate/set, get_datarate, check_tx_power, Uplink::add_mac_command, MacCommands iterator, LinkADRAnsCreator
macs!(macs_r0_linkadr1, 0, [0x03]);
//@h id=macs_r0_linkadr2 props=C04,C08,C09 tier=quick build=dev-eu868 tbuilds=dev-eu433,dev-in865,dev-as923 cost=90 timeout=1200
//@bounds EU868; block of two LinkADRReq, all 2^64 payloads
macs!(macs_r0_linkadr2, 0, [0x03, 0x03]);
//@h id=macs_r0_linkadr3 props=C04,C08,C09 tier=thorough build=dev-eu868 cost=150 timeout=2400
//@bounds EU868; block of three LinkADRReq, all payloads
macs!(macs_r0_linkadr3, 0, [0x03, 0x03, 0x03]);
//@h id=macs_r0_rxparam props=C04,C08,C10 tier=quick build=dev-eu868 tbuilds=dev-eu433,dev-in865,dev-as923 cost=40 timeout=1200
//@bounds EU868; RXParamSetupReq, all 2^32 payloads
macs!(macs_r0_rxparam, 0, [0x05]);
//@h id=macs_r0_devstatus props=C04,C08 tier=quick build=dev-eu868 cost=20 timeout=1200
//@bounds EU868; DevStatusReq, every SNR
macs!(macs_r0_devstatus, 0, [0x06]);
//@h id=macs_r0_newchannel props=C04,C08,C09 tier=quick build=dev-eu868 tbuilds=dev-eu433,dev-in865,dev-as923 cost=60 timeout=1200
//@bounds EU868; NewChannelReq, all 2^40 payloads (every index, frequency, DataRateRange)
macs!(macs_r0_newchannel, 0, [0x07]);
//@h id=macs_r0_rxtiming props=C04,C08,C10 tier=quick build=dev-eu868 tbuilds=dev-eu433,dev-in865,dev-as923 cost=20 timeout=1200
//@bounds EU868; RXTimingSetupReq, every delay byte
macs!(macs_r0_rxtiming, 0, [0x08]);
//@h id=macs_r0_dlchannel props=C04,C08,C10 tier=quick build=dev-eu868 tbuilds=dev-eu433,dev-in865,dev-as923 cost=60 timeout=1200
//@bounds EU868; DlChannelReq, all 2^32 payloads
macs!(macs_r0_dlchannel, 0, [0x0A]);
//@h id=macs_r0_ignored props=C04,C08 tier=quick build=dev-eu868 cost=40 timeout=1200
//@bounds EU868; LinkCheckAns, DutyCycleReq, TXParamSetupReq, DeviceTimeAns in one stream, all payloads: no effect, no answer
macs!(macs_r0_ignored, 0, [0x02, 0x04, 0x09, 0x0D]);
//@h id=macs_r0_mixed props=C04,C08 tier=quick build=dev-eu868 tbuilds=dev-eu433,dev-in865,dev-as923 cost=120 timeout=1800
//@bounds EU868; LinkADRReq + RXParamSetupReq + RXTimingSetupReq + DevStatusReq in one frame (order of answers, interleaving), all payloads
macs!(macs_r0_mixed, 0, [0x03, 0x05, 0x08, 0x06]);

//@h id=macs_us_linkadr1 props=C04,C08,C09 tier=quick build=dev-us915 tbuilds=dev-au915 cost=90 timeout=1200
//@bounds US915; arbitrary 72-channel mask and join bookkeeping under I-fix; LinkADRReq, all payloads
macs!(macs_us_linkadr1, 0, [0x03]);
//@h id=macs_us_linkadr2 props=C04,C08,C09 tier=quick build=dev-us915 tbuilds=dev-au915 cost=120 timeout=1800
//@bounds US915; block of two LinkADRReq, all payloads
macs!(macs_us_linkadr2, 0, [0x03, 0x03]);
//@h id=macs_us_rxparam props=C04,C08,C10 tier=quick build=dev-us915 tbuilds=dev-au915 cost=40 timeout=1200
//@bounds US915; RXParamSetupReq, all payloads
macs!(macs_us_rxparam, 0, [0x05]);
//@h id=macs_us_chan_ignored props=C04,C08 tier=quick build=dev-us915 tbuilds=dev-au915 cost=40 timeout=1200
//@bounds US915; NewChannelReq + DlChannelReq (ignored by fixed plans) + RXTimingSetupReq + DevStatusReq, all payloads
macs!(macs_us_chan_ignored, 0, [0x07, 0x0A, 0x08, 0x06]);
