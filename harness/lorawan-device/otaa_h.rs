//@file anchor=lorawan-device/src/mac/otaa.rs
// C11 / C04-H2 / C07-H3: OTAA join request and JoinAccept handling, crypto = uninterpreted model.
use super::*;
use super::super::verif_kani_lorawan_device_mac_common as mc;
use lorawan::default_crypto::model;
use mc::rt;
use lorawan::types::DR;

fn any_creds() -> NetworkCredentials {
    NetworkCredentials::new(
        crate::AppEui::from(kani::any::<[u8; 8]>()),
        crate::DevEui::from(kani::any::<[u8; 8]>()),
        crate::AppKey::from(kani::any::<[u8; 16]>()),
    )
}

//@h id=join_request_exact props=C11,C01 tier=quick build=dev-eu868 cost=30 timeout=900
//@bounds all identifiers (64-bit EUIs), all root keys, every RNG draw: the 23 bytes handed to the radio
//@encodes Otaa::prepare_buffer, JoinRequest::build_into, securityhelpers::calculate_mic, From<keys::AppEui/DevEui> conversions
#[kani::proof]
#[kani::unwind(24)]
fn join_request_exact() {
    crate::mac::verif_kani_lorawan_device_mac_common::vinit();
    let probe: usize = kani::any();
    model::reset(probe);
    let appeui: [u8; 8] = kani::any();
    let deveui: [u8; 8] = kani::any();
    let appkey: [u8; 16] = kani::any();
    let creds = NetworkCredentials::new(crate::AppEui::from(appeui), crate::DevEui::from(deveui), crate::AppKey::from(appkey));
    let mut otaa = Otaa::new(creds);
    let mut rng = mc::AnyRng::new(1);
    let mut buf = RadioBuffer::<64>::new();
    let nonce = otaa.prepare_buffer::<mc::AnyRng, 64>(&mut rng, &mut buf);
    let f = buf.as_ref_for_read();
    crate::vcheck!(f.len() == 23, "C11: JoinRequest is 23 bytes");
    crate::vcheck!(f[0] == 0x00, "C11: MHDR JoinRequest");
    let k: usize = kani::any();
    kani::assume(k < 8);
    // identifiers are configured LSB-first (wire order) in keys::AppEui / keys::DevEui
    crate::vcheck!(f[1 + k] == appeui[k], "C11: JoinEUI bytes");
    crate::vcheck!(f[9 + k] == deveui[k], "C11: DevEUI bytes");
    crate::vcheck!(f[17] == nonce as u8 && f[18] == (nonce >> 8) as u8, "C11: DevNonce little-endian");
    crate::vcheck!(otaa.dev_nonce.value() == nonce, "C11: the DevNonce sent is remembered for key derivation");
    unsafe {
        crate::vcheck!(model::MIC_N.v == 1 && model::ENC_N.v == 0, "C11: one MIC computation");
        let m = &model::MICS.v[0];
        crate::vcheck!(m.key == model::pack(&appkey), "C11: JoinRequest MIC under the root key");
        crate::vcheck!(m.b0_len == 0 && m.len == 19, "C11: MIC over MHDR|JoinEUI|DevEUI|DevNonce");
        if probe < 19 {
            crate::vcheck!(m.probe == f[probe], "C11: MIC covers the frame");
        }
        crate::vcheck!(f[19] == m.out[0] && f[20] == m.out[1] && f[21] == m.out[2] && f[22] == m.out[3], "C11: MIC placed");
    }
}

fn join_accept_step(ri: usize, len: usize) {
    crate::mac::verif_kani_lorawan_device_mac_common::vinit();
    let probe: usize = kani::any();
    model::reset(probe);
    unsafe { model::CONSISTENT.v = false; }
    let r = rt::region_ut(ri);
    let fixed = rt::is_fixed(r);
    let mut region = rt::any_region(r);
    let mut cfg = mc::any_configuration();
    kani::assume(mc::cfg_inv(&cfg, &region));
    kani::assume(rt::inv(&mut region, cfg.data_rate));
    let appkey: [u8; 16] = kani::any();
    let creds = NetworkCredentials::new(crate::AppEui::from(kani::any::<[u8; 8]>()), crate::DevEui::from(kani::any::<[u8; 8]>()), crate::AppKey::from(appkey));
    let devnonce: u16 = kani::any();
    let mut otaa = Otaa { dev_nonce: DevNonce::from_value(devnonce), network_credentials: creds };
    let frame: [u8; 64] = kani::any();
    let mut rx = RadioBuffer::<64>::new();
    rx.as_mut().copy_from_slice(&frame);
    rx.set_pos(len);
    let cfg0 = cfg;
    let mut region0 = region.clone();

    let out = otaa.handle_rx::<64>(&mut region, &mut cfg, &mut rx);

    let structure = frame[0] & 3 == 0 && frame[0] >> 5 == 1;
    let nb = (len - 1) / 16;
    let mut valid = false;
    let mut d = [0u8; 32]; // decrypted bytes 1..len
    unsafe {
        if structure {
            crate::vcheck!(model::ENC_N.v >= nb, "C11: JoinAccept is decrypted with the AES encrypt primitive, one call per block");
            let mut b = 0;
            while b < 2 {
                if b < nb {
                    let e = model::ENC.v[b];
                    crate::vcheck!(e.key == model::pack(&appkey) && !e.decrypt, "C11: JoinAccept decrypted under the root key");
                    crate::vcheck!(e.input == model::pack(&frame[1 + 16 * b..17 + 16 * b]), "C11: decryption block input");
                    model::unpack(e.output, &mut d[16 * b..16 * b + 16]);
                }
                b += 1;
            }
            crate::vcheck!(model::MIC_N.v == 1, "C11: one MIC computation");
            let m = &model::MICS.v[0];
            crate::vcheck!(m.key == model::pack(&appkey) && m.b0_len == 0 && m.len == len - 4, "C11: MIC under the root key over MHDR|decrypted payload");
            if probe < len - 4 {
                crate::vcheck!(m.probe == if probe == 0 { frame[0] } else { d[probe - 1] }, "C11: MIC message bytes");
            }
            valid = m.out[0] == d[len - 5] && m.out[1] == d[len - 4] && m.out[2] == d[len - 3] && m.out[3] == d[len - 2];
        } else {
            crate::vcheck!(model::ENC_N.v == 0 && model::MIC_N.v == 0, "C11: frames that are not JoinAccepts are not processed");
        }
    }
    match out {
        None => {
            crate::vcheck!(!(structure && valid), "C11: a JoinAccept with a valid MIC must be accepted");
            crate::vcheck!(mc::cfg_same(&cfg, &cfg0), "C07/C11: a rejected JoinAccept must leave the configuration unchanged");
            crate::vcheck!(rt::same(&mut region, &mut region0), "C07/C11: a rejected JoinAccept must leave the channel plan unchanged");
            kani::cover!(structure, "info: JoinAccept with wrong MIC");
        }
        Some(s) => {
            crate::vcheck!(structure && valid, "C11: only a JoinAccept whose MIC verifies under the root key may be accepted");
            kani::cover!(true, "JoinAccept accepted");
            unsafe {
                crate::vcheck!(model::ENC_N.v == nb + 2, "C11: two key derivations");
                let mut blk = [0u8; 16];
                blk[0] = 0x01;
                blk[1] = d[0]; blk[2] = d[1]; blk[3] = d[2];      // JoinNonce
                blk[4] = d[3]; blk[5] = d[4]; blk[6] = d[5];      // NetID
                blk[7] = devnonce as u8; blk[8] = (devnonce >> 8) as u8;
                let e1 = model::ENC.v[nb];
                let e2 = model::ENC.v[nb + 1];
                crate::vcheck!(e1.key == model::pack(&appkey) && e1.input == model::pack(&blk), "C11: NwkSKey = E(AppKey, 01|JoinNonce|NetID|DevNonce|pad) with the DevNonce just sent");
                blk[0] = 0x02;
                crate::vcheck!(e2.key == model::pack(&appkey) && e2.input == model::pack(&blk), "C11: AppSKey = E(AppKey, 02|JoinNonce|NetID|DevNonce|pad)");
                crate::vcheck!(model::pack(s.nwkskey.as_ref()) == e1.output, "C11: NwkSKey is the derived key");
                crate::vcheck!(model::pack(s.appskey.as_ref()) == e2.output, "C11: AppSKey is the derived key");
            }
            let a = s.devaddr.as_wire_bytes();
            crate::vcheck!(a[0] == d[6] && a[1] == d[7] && a[2] == d[8] && a[3] == d[9], "C11: DevAddr is the assigned one");
            crate::vcheck!(s.fcnt_up == 0 && s.fcnt_down().is_none(), "C11: both frame counters restart");
            crate::vcheck!(s.uplink.mac_commands().len() == 0 && !s.uplink.confirms_downlink(), "C11: no stale answers in the new session");
            // RxDelay
            let del = d[11] & 0x0f;
            crate::vcheck!(cfg.rx1_delay == if del == 0 { 1000 } else { del as u32 * 1000 }, "C10/C11: RxDelay applied (0 means 1 s)");
            // DLSettings
            let off = (d[10] >> 4) & 7;
            let r2 = d[10] & 0x0f;
            let exp_off = if region0.rx1_dr_offset_validate(off).is_some() { off } else { cfg0.rx1_dr_offset };
            crate::vcheck!(cfg.rx1_dr_offset == exp_off, "C11: RX1 offset applied when valid for the region, ignored otherwise");
            let r2_def = r2 < 15 && region0.get_datarate(r2).is_some();
            let exp_r2 = if r2_def { Some(DR::from(r2)) } else { cfg0.rx2_data_rate };
            crate::vcheck!(cfg.rx2_data_rate == exp_r2, "C11: RX2 data rate applied when the region defines it, ignored otherwise");
            let mut c2 = cfg;
            c2.rx1_delay = cfg0.rx1_delay;
            c2.rx1_dr_offset = cfg0.rx1_dr_offset;
            c2.rx2_data_rate = cfg0.rx2_data_rate;
            crate::vcheck!(mc::cfg_same(&c2, &cfg0), "C11: nothing else in the configuration changes on join");
            // CFList
            if len == 33 {
                let ty = d[27];
                if fixed {
                    if ty == 1 {
                        let mut b = 0;
                        while b < 9 {
                            crate::vcheck!(rt::mask_bank(&mut region, b) == d[12 + b], "C11: CFList type 1 sets the 72-channel mask");
                            b += 1;
                        }
                        kani::cover!(true, "info: CFList type 1 applied");
                    } else {
                        let mut b = 0;
                        while b < 9 {
                            crate::vcheck!(rt::mask_bank(&mut region, b) == rt::mask_bank(&mut region0, b), "C11: other CFList types leave the mask alone");
                            b += 1;
                        }
                    }
                } else if ty == 0 {
                    let j = rt::num_join(&mut region0);
                    let n: usize = kani::any();
                    kani::assume(n < 5);
                    let f = (d[12 + 3 * n] as u32 | (d[13 + 3 * n] as u32) << 8 | (d[14 + 3 * n] as u32) << 16) * 100;
                    let (present, ul, dl, _) = rt::rd_channel_info(&mut region, j + n);
                    if f == 0 {
                        crate::vcheck!(!present, "C11: CFList frequency 0 leaves the slot unused");
                    } else if rt::freq_in_band(&mut region0, f) {
                        crate::vcheck!(present && ul == f && dl == f, "C11: CFList type 0 defines channels J..J+4");
                        kani::cover!(true, "info: CFList type 0 channel created");
                    }
                } else {
                    crate::vcheck!(rt::same(&mut region, &mut region0), "C11: RFU / foreign CFList types are ignored");
                }
            } else {
                crate::vcheck!(rt::same(&mut region, &mut region0), "C11: no CFList, no channel plan change");
            }
            crate::vcheck!(mc::cfg_inv(&cfg, &region), "C04/C11: configuration invariant after join");
            crate::vcheck!(rt::inv(&mut region, cfg.data_rate), "C04/C09/C11: channel plan invariant after join (usable, in-band channels)");
        }
    }
}

macro_rules! ja { ($name:ident, $ri:expr, $len:expr) => {
    #[kani::proof]
    #[kani::unwind(74)]
    fn $name() { join_accept_step($ri, $len) }
}; }

//@h id=join_accept_17_r0 props=C04,C07,C09,C10,C11 tier=quick build=dev-eu868 tbuilds=dev-eu433,dev-in865,dev-as923 cost=60 timeout=1200
//@bounds EU868; 17-byte frame with all bytes symbolic (every MHDR, JoinNonce, NetID, DevAddr, DLSettings, RxDelay), any root key, any DevNonce, arbitrary prior plan/configuration under the invariants
//@encodes Otaa::handle_rx, DecryptedJoinAcceptPayload::{check_mic_and_decrypt_in_place, accessors, derive_*}, Session::derive_new, region process_join_accept / rx1_dr_offset_validate / get_datarate, del_to_delay_ms
//@assumes AES/CMAC are uninterpreted functions
ja!(join_accept_17_r0, 0, 17);
//@h id=join_accept_33_r0 props=C04,C07,C09,C11 tier=quick build=dev-eu868 tbuilds=dev-eu433,dev-in865,dev-as923 cost=120 timeout=1500
//@bounds EU868; 33-byte frame (CFList of any type with arbitrary frequencies/masks), otherwise as above
//@assumes AES/CMAC are uninterpreted functions
ja!(join_accept_33_r0, 0, 33);
//@h id=join_accept_17_us props=C04,C07,C09,C10,C11 tier=quick build=dev-us915 tbuilds=dev-au915 cost=60 timeout=1200
//@bounds US915; 17-byte frame, all bytes symbolic
//@assumes AES/CMAC are uninterpreted functions
ja!(join_accept_17_us, 0, 17);
//@h id=join_accept_33_us props=C04,C07,C09,C11 tier=quick build=dev-us915 tbuilds=dev-au915 cost=120 timeout=1500
//@bounds US915; 33-byte frame (CFList type 1 mask / other types), all bytes symbolic
//@assumes AES/CMAC are uninterpreted functions
ja!(join_accept_33_us, 0, 33);
