//@file anchor=lorawan-device/src/region/dynamic_channel_plans/mod.rs
// Helpers for dynamic channel plans: arbitrary plan states, representation invariant I-dyn,
// snapshots.  (No harness in this file; used by the region/MAC harnesses.)
use super::*;

pub(crate) fn any_channel() -> Option<Channel> {
    if kani::any() {
        let frequency: u32 = kani::any();
        let dl_frequency: Option<u32> = kani::any();
        let dr: u8 = kani::any();
        Some(Channel { frequency, _datarates: DataRateRange::new_from_raw(dr), dl_frequency })
    } else {
        None
    }
}

/// An arbitrary plan state: join channels as initialised by the region (their RX1 frequency may
/// have been remapped by DlChannelReq), every other slot arbitrary, mask arbitrary.
pub(crate) fn any_plan<R: DynamicChannelRegion>(p: &mut DynamicChannelPlan<R>) {
    macro_rules! slot {
        ($i:expr) => {
            if $i < R::NUM_JOIN_CHANNELS as usize {
                if let Some(c) = p.channels[$i].as_mut() {
                    c.dl_frequency = kani::any();
                }
            } else {
                p.channels[$i] = any_channel();
            }
        };
    }
    slot!(0); slot!(1); slot!(2); slot!(3); slot!(4); slot!(5); slot!(6); slot!(7);
    slot!(8); slot!(9); slot!(10); slot!(11); slot!(12); slot!(13); slot!(14); slot!(15);
    let m: [u8; 9] = kani::any();
    p.channel_mask = ChannelMask::from(m);
}

/// I-dyn: the join channels are present; every present channel has an in-band uplink frequency.
/// (No invariant on the mask: since the "fix: dynamic-plan channel selection spins forever ..."
/// commit selection falls back to the default mask when nothing defined is enabled.)
pub(crate) fn inv<R: DynamicChannelRegion>(p: &DynamicChannelPlan<R>) -> bool {
    let mut usable = false;
    let mut in_band = true;
    let mut join_ok = true;
    macro_rules! slot {
        ($i:expr) => {
            match &p.channels[$i] {
                Some(c) => {
                    if !(p.frequency_valid)(c.frequency) {
                        in_band = false;
                    }
                    if p.channel_mask.get_index($i >> 3) & (1 << ($i & 7)) != 0 {
                        usable = true;
                    }
                }
                None => {
                    if $i < R::NUM_JOIN_CHANNELS as usize {
                        join_ok = false;
                    }
                }
            }
        };
    }
    slot!(0); slot!(1); slot!(2); slot!(3); slot!(4); slot!(5); slot!(6); slot!(7);
    slot!(8); slot!(9); slot!(10); slot!(11); slot!(12); slot!(13); slot!(14); slot!(15);
    let _ = usable;
    in_band && join_ok
}

pub(crate) fn same<R: DynamicChannelRegion>(a: &DynamicChannelPlan<R>, b: &DynamicChannelPlan<R>) -> bool {
    let mut eq = true;
    macro_rules! slot {
        ($i:expr) => {
            match (&a.channels[$i], &b.channels[$i]) {
                (Some(x), Some(y)) => {
                    if x.frequency != y.frequency || x.dl_frequency != y.dl_frequency
                        || x._datarates.raw_value() != y._datarates.raw_value() {
                        eq = false;
                    }
                }
                (None, None) => {}
                _ => eq = false,
            }
        };
    }
    slot!(0); slot!(1); slot!(2); slot!(3); slot!(4); slot!(5); slot!(6); slot!(7);
    slot!(8); slot!(9); slot!(10); slot!(11); slot!(12); slot!(13); slot!(14); slot!(15);
    macro_rules! bank { ($i:expr) => { if a.channel_mask.get_index($i) != b.channel_mask.get_index($i) { eq = false; } }; }
    bank!(0); bank!(1); bank!(2); bank!(3); bank!(4); bank!(5); bank!(6); bank!(7); bank!(8);
    eq
}

/// channel `i` (< 16) as (present, ul frequency, rx1 frequency, enabled)
pub(crate) fn channel_info<R: DynamicChannelRegion>(p: &DynamicChannelPlan<R>, i: usize) -> (bool, u32, u32, bool) {
    let en = p.channel_mask.get_index((i & 15) >> 3) & (1 << (i & 7)) != 0;
    match &p.channels[i & 15] {
        Some(c) => (true, c.frequency, c.dl_frequency.unwrap_or(c.frequency), en),
        None => (false, 0, 0, en),
    }
}

pub(crate) fn freq_valid<R: DynamicChannelRegion>(p: &DynamicChannelPlan<R>, f: u32) -> bool {
    (p.frequency_valid)(f)
}
pub(crate) fn num_join<R: DynamicChannelRegion>(_p: &DynamicChannelPlan<R>) -> usize {
    R::NUM_JOIN_CHANNELS as usize
}
pub(crate) fn mask_bank<R: DynamicChannelRegion>(p: &DynamicChannelPlan<R>, i: usize) -> u8 {
    p.channel_mask.get_index(i)
}
