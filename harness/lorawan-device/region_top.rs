//@file anchor=lorawan-device/src/region/mod.rs
// Region-level helpers visible to the whole crate: arbitrary region states, invariant, snapshots.
use super::*;
#[cfg(any(feature = "region-as923-1", feature = "region-as923-2", feature = "region-as923-3",
          feature = "region-as923-4", feature = "region-eu433", feature = "region-eu868", feature = "region-in865"))]
pub(crate) use super::dynamic_channel_plans::verif_kani_lorawan_device_region_dyn as rd;
#[cfg(any(feature = "region-us915", feature = "region-au915"))]
pub(crate) use super::fixed_channel_plans::verif_kani_lorawan_device_region_fixed as rf;

macro_rules! on_state {
    ($st:expr, $p:ident, $dynexpr:expr, $fixexpr:expr) => {
        match $st {
            #[cfg(feature = "region-as923-1")]
            State::AS923_1($p) => $dynexpr,
            #[cfg(feature = "region-as923-2")]
            State::AS923_2($p) => $dynexpr,
            #[cfg(feature = "region-as923-3")]
            State::AS923_3($p) => $dynexpr,
            #[cfg(feature = "region-as923-4")]
            State::AS923_4($p) => $dynexpr,
            #[cfg(feature = "region-eu868")]
            State::EU868($p) => $dynexpr,
            #[cfg(feature = "region-eu433")]
            State::EU433($p) => $dynexpr,
            #[cfg(feature = "region-in865")]
            State::IN865($p) => $dynexpr,
            #[cfg(feature = "region-au915")]
            State::AU915($p) => { let $p = &mut $p.0; $fixexpr }
            #[cfg(feature = "region-us915")]
            State::US915($p) => { let $p = &mut $p.0; $fixexpr }
        }
    };
}

/// The regions compiled into this build (one region family per build, DESIGN R3).
pub(crate) const REGIONS: &[Region] = &[
    #[cfg(feature = "region-as923-1")]
    Region::AS923_1,
    #[cfg(feature = "region-as923-2")]
    Region::AS923_2,
    #[cfg(feature = "region-as923-3")]
    Region::AS923_3,
    #[cfg(feature = "region-as923-4")]
    Region::AS923_4,
    #[cfg(feature = "region-au915")]
    Region::AU915,
    #[cfg(feature = "region-eu868")]
    Region::EU868,
    #[cfg(feature = "region-eu433")]
    Region::EU433,
    #[cfg(feature = "region-in865")]
    Region::IN865,
    #[cfg(feature = "region-us915")]
    Region::US915,
];

/// the region under test: chosen by `--cfg lrv_region="..."` (set by the build configuration),
/// so that it does not depend on which other region features happen to be enabled
pub(crate) fn region_ut(ri: usize) -> Region {
    #[cfg(lrv_region = "eu868")]
    { let _ = ri; return Region::EU868; }
    #[cfg(lrv_region = "eu433")]
    { let _ = ri; return Region::EU433; }
    #[cfg(lrv_region = "in865")]
    { let _ = ri; return Region::IN865; }
    #[cfg(lrv_region = "us915")]
    { let _ = ri; return Region::US915; }
    #[cfg(lrv_region = "au915")]
    { let _ = ri; return Region::AU915; }
    #[cfg(lrv_region = "as923")]
    { return [Region::AS923_1, Region::AS923_2, Region::AS923_3, Region::AS923_4][ri]; }
    #[allow(unreachable_code)]
    REGIONS[ri]
}

pub(crate) fn is_fixed(r: Region) -> bool {
    match r {
        #[cfg(feature = "region-au915")]
        Region::AU915 => true,
        #[cfg(feature = "region-us915")]
        Region::US915 => true,
        _ => false,
    }
}

/// arbitrary channel-plan state of region `r` (not yet constrained by the invariant)
pub(crate) fn any_region(r: Region) -> Configuration {
    let mut c = Configuration::new(r);
    on_state!(&mut c.state, p, rd::any_plan(p), rf::any_plan(p));
    c
}

/// representation invariant of the channel plan, given the current data rate (I-dyn / I-fix)
pub(crate) fn inv(c: &mut Configuration, dr: DR) -> bool {
    on_state!(&mut c.state, p, rd::inv(p), rf::inv(p, dr))
}

pub(crate) fn same(a: &mut Configuration, b: &mut Configuration) -> bool {
    match (&mut a.state, &mut b.state) {
        #[cfg(feature = "region-as923-1")]
        (State::AS923_1(x), State::AS923_1(y)) => rd::same(x, y),
        #[cfg(feature = "region-as923-2")]
        (State::AS923_2(x), State::AS923_2(y)) => rd::same(x, y),
        #[cfg(feature = "region-as923-3")]
        (State::AS923_3(x), State::AS923_3(y)) => rd::same(x, y),
        #[cfg(feature = "region-as923-4")]
        (State::AS923_4(x), State::AS923_4(y)) => rd::same(x, y),
        #[cfg(feature = "region-eu868")]
        (State::EU868(x), State::EU868(y)) => rd::same(x, y),
        #[cfg(feature = "region-eu433")]
        (State::EU433(x), State::EU433(y)) => rd::same(x, y),
        #[cfg(feature = "region-in865")]
        (State::IN865(x), State::IN865(y)) => rd::same(x, y),
        #[cfg(feature = "region-au915")]
        (State::AU915(x), State::AU915(y)) => rf::same(&x.0, &y.0),
        #[cfg(feature = "region-us915")]
        (State::US915(x), State::US915(y)) => rf::same(&x.0, &y.0),
        #[allow(unreachable_patterns)]
        _ => false,
    }
}

/// bank `i` (0..9) of the channel mask in force
pub(crate) fn mask_bank(c: &mut Configuration, i: usize) -> u8 {
    on_state!(&mut c.state, p, rd::mask_bank(p, i), rf::mask_bank(p, i))
}

/// Is `freq` the uplink frequency of a channel that is defined and enabled in `c` (fixed plans:
/// at a channel index whose class matches `bw500`), with `rx1` the RX1 frequency paired with it?
/// (explicit disjunction over all channel indices: 16 dynamic / 72 fixed)
pub(crate) fn tx_channel_legal(c: &mut Configuration, freq: u32, rx1: u32, bw500: bool) -> bool {
    on_state!(&mut c.state, p,
        {
            let mut ok = false;
            let mut k = 0;
            while k < 16 {
                let (present, ul, dl, en) = rd::channel_info(p, k);
                if present && en && ul == freq && dl == rx1 {
                    ok = true;
                }
                k += 1;
            }
            ok
        },
        {
            let mut ok = false;
            let mut k = 0;
            while k < 72 {
                if rf::enabled(p, k) && rf::ul_freq(p, k) == freq && rf::dl_freq(p, k) == rx1 && ((k >= 64) == bw500) {
                    ok = true;
                }
                k += 1;
            }
            ok
        })
}

/// Is `f` inside the region's band?  Independent reference (RP002-1.0.3 section 2, band edges in
/// Hz), *not* the plan's own `frequency_valid` closure (that one is code under test: a seeded
/// change widened the IN865 band and was invisible while the oracle asked the plan itself).
pub(crate) fn freq_in_band(c: &mut Configuration, f: u32) -> bool {
    let (lo, hi): (u32, u32) = match &c.state {
        #[cfg(feature = "region-as923-1")]
        State::AS923_1(_) => (915_000_000, 928_000_000),
        #[cfg(feature = "region-as923-2")]
        State::AS923_2(_) => (915_000_000, 928_000_000),
        #[cfg(feature = "region-as923-3")]
        State::AS923_3(_) => (915_000_000, 928_000_000),
        #[cfg(feature = "region-as923-4")]
        State::AS923_4(_) => (917_000_000, 920_000_000),
        #[cfg(feature = "region-eu868")]
        State::EU868(_) => (863_000_000, 870_000_000),
        #[cfg(feature = "region-eu433")]
        State::EU433(_) => (433_050_000, 434_790_000),
        #[cfg(feature = "region-in865")]
        State::IN865(_) => (865_000_000, 867_000_000),
        #[cfg(feature = "region-au915")]
        State::AU915(_) => (915_000_000, 928_000_000),
        #[cfg(feature = "region-us915")]
        State::US915(_) => (902_000_000, 928_000_000),
    };
    f >= lo && f <= hi
}

/// dynamic plans: channel `i` (< 16) as (present, ul frequency, rx1 frequency, enabled); fixed: absent
pub(crate) fn rd_channel_info(c: &mut Configuration, i: usize) -> (bool, u32, u32, bool) {
    on_state!(&mut c.state, p, rd::channel_info(p, i), { let _ = p; (false, 0, 0, false) })
}

pub(crate) fn num_join(c: &mut Configuration) -> usize {
    on_state!(&mut c.state, p, rd::num_join(p), { let _ = p; 0 })
}

/// Is `freq` the uplink frequency of one of the region's join channels (dynamic plans: the
/// first NUM_JOIN_CHANNELS slots), with `rx1` its paired RX1 frequency?
/// fixed plans: is `freq` the uplink frequency of one of the eight 500 kHz channels (64..71)?
pub(crate) fn join_channel_is_500(c: &mut Configuration, freq: u32) -> bool {
    on_state!(&mut c.state, p, { let _ = p; false },
        {
            let mut is500 = false;
            let mut k = 64;
            while k < 72 {
                if rf::ul_freq(p, k) == freq {
                    is500 = true;
                }
                k += 1;
            }
            is500
        })
}
pub(crate) fn join_channel_legal(c: &mut Configuration, freq: u32, rx1: u32) -> bool {
    on_state!(&mut c.state, p,
        {
            let mut ok = false;
            let mut k = 0;
            while k < 3 {
                let (present, ul, dl, _) = rd::channel_info(p, k);
                if k < rd::num_join(p) && present && ul == freq && dl == rx1 {
                    ok = true;
                }
                k += 1;
            }
            ok
        },
        {
            let mut ok = false;
            let mut k = 0;
            while k < 72 {
                if rf::ul_freq(p, k) == freq && rf::dl_freq(p, k) == rx1 {
                    ok = true;
                }
                k += 1;
            }
            ok
        })
}
