//@file anchor=lorawan-device/src/mac/mod.rs
// C10: receive windows follow the regional parameters in force when the uplink was sent.
use super::*;
use super::verif_kani_lorawan_device_mac_common as mc;
use super::verif_kani_lorawan_device_mac_tx::{any_mac_pub, stub_prepare_pub};
use mc::rt;

/// uplink data-rate index of (sf, bw) in the region table (uplink rates are the low indices)
fn dr_index(region: &region::Configuration, bb: &lora_modulation::BaseBandModulationParams) -> Option<u8> {
    let mut found = None;
    let mut d = 15u8;
    while d > 0 {
        d -= 1;
        if let Some(x) = region.get_datarate(d) {
            if x.spreading_factor == bb.sf && x.bandwidth == bb.bw {
                found = Some(d);
            }
        }
    }
    found
}

/// reference RX1 data rate (RP002-1.0.x), None where the regional text leaves room
fn ref_rx1(r: region::Region, up: u8, off: u8) -> Option<u8> {
    let sub = |a: u8, b: u8| if a > b { a - b } else { 0 };
    match r {
        #[cfg(feature = "region-eu868")]
        region::Region::EU868 => if up <= 7 && off <= 5 { Some(sub(up, off)) } else { None },
        #[cfg(feature = "region-eu433")]
        region::Region::EU433 => if up <= 7 && off <= 5 { Some(sub(up, off)) } else { None },
        #[cfg(feature = "region-in865")]
        region::Region::IN865 => {
            if up > 7 || up == 6 { None }
            else if off <= 5 { Some(sub(up, off)) }
            else {
                // RP002 table for RX1DROffset 6 and 7 (effective offsets -1 and -2; DR6 is RFU)
                let t6 = [1u8, 2, 3, 4, 5, 5, 0, 7];
                let t7 = [2u8, 3, 4, 5, 5, 7, 0, 7];
                Some(if off == 6 { t6[up as usize] } else { t7[up as usize] })
            }
        }
        #[cfg(feature = "region-us915")]
        region::Region::US915 => if up <= 4 && off <= 3 { Some(core::cmp::min(13, core::cmp::max(8, 10 + up - off))) } else { None },
        #[cfg(feature = "region-au915")]
        region::Region::AU915 => if up <= 6 && off <= 5 { Some(core::cmp::min(13, core::cmp::max(8, 8 + up - off))) } else { None },
        #[allow(unreachable_patterns)]
        _ => {
            // AS923-x: effective offsets 0..5, -1, -2; the cap for negative offsets is left open
            if up <= 7 && off <= 5 { Some(sub(up, off)) }
            else if up <= 7 && off <= 7 && up + (off - 5) <= 5 { Some(up + (off - 5)) }
            else { None }
        }
    }
}

/// regional RX2 defaults (RP002): (frequency, data rate)
fn ref_rx2(r: region::Region) -> (u32, u8) {
    match r {
        #[cfg(feature = "region-eu868")]
        region::Region::EU868 => (869_525_000, 0),
        #[cfg(feature = "region-eu433")]
        region::Region::EU433 => (434_665_000, 0),
        #[cfg(feature = "region-in865")]
        region::Region::IN865 => (866_550_000, 2),
        #[cfg(feature = "region-us915")]
        region::Region::US915 => (923_300_000, 8),
        #[cfg(feature = "region-au915")]
        region::Region::AU915 => (923_300_000, 8),
        #[cfg(feature = "region-as923-1")]
        region::Region::AS923_1 => (923_200_000, 2),
        #[cfg(feature = "region-as923-2")]
        region::Region::AS923_2 => (923_200_000 - 1_800_000, 2),
        #[cfg(feature = "region-as923-3")]
        region::Region::AS923_3 => (923_200_000 - 6_600_000, 2),
        #[cfg(feature = "region-as923-4")]
        region::Region::AS923_4 => (923_200_000 - 5_900_000, 2),
    }
}

fn same_bb(region: &region::Configuration, rf: &RfConfig, dr: u8) -> bool {
    match region.get_datarate(dr) {
        Some(d) => d.spreading_factor == rf.bb.sf && d.bandwidth == rf.bb.bw && rf.max_payload_len == d.max_mac_payload_size,
        None => false,
    }
}

fn rx_windows_step(ri: usize) {
    crate::mac::verif_kani_lorawan_device_mac_common::vinit();
    let r = rt::region_ut(ri);
    let mut mac = any_mac_pub(ri);
    let cfg = mac.configuration;
    let mut rng = mc::AnyRng::new(3);
    let mut buf = RadioBuffer::<64>::new();
    let send = SendData { data: &[], fport: 1, confirmed: false };
    let (tx, w, _) = match mac.send::<mc::AnyRng, 64>(&mut rng, &mut buf, &send) {
        Ok(x) => x,
        Err(_) => {
            assert!(false, "joined device must be able to send");
            return;
        }
    };
    let up = match dr_index(&mac.region, &tx.rf.bb) {
        Some(d) => d,
        None => {
            crate::vcheck!(false, "C10: the uplink data rate is one the region defines");
            return;
        }
    };
    // RX1: data rate from the regional table for (uplink DR actually used, RX1 offset)
    let (f2_def, dr2_def) = ref_rx2(r);
    // (downlink-only data rates 8..=13 of the fixed plans share SF/BW with uplink rates; the RX1
    // table is only defined for uplink rates, so configurations holding one are left to C08)
    if (cfg.data_rate as u8) > 7 {
        return;
    }
    if let Some(want) = ref_rx1(r, up, cfg.rx1_dr_offset) {
        if mac.region.get_datarate(want).is_some() {
            crate::vcheck!(same_bb(&mac.region, &w.rx1, want), "C10: RX1 data rate must follow the regional RX1 table for (uplink data rate, RX1 offset)");
        }
    }
    crate::vcheck!(dr_index(&mac.region, &w.rx1.bb).is_some(), "C10: RX1 uses a LoRa data rate the region defines");
    // RX2: negotiated or regional default frequency and data rate
    let f2 = cfg.rx2_frequency.unwrap_or(f2_def);
    crate::vcheck!(w.rx2.frequency == f2, "C10: RX2 frequency is the negotiated one or the regional default");
    let d2 = match cfg.rx2_data_rate { Some(d) => d as u8, None => dr2_def };
    crate::vcheck!(same_bb(&mac.region, &w.rx2, d2), "C10: RX2 data rate is the negotiated one or the regional default");
    // Class C listens with the RX2 parameters
    #[cfg(feature = "class-c")]
    {
        let c = mac.get_rxc_config();
        crate::vcheck!(c.rf.frequency == f2 && same_bb(&mac.region, &c.rf, d2), "C10: Class C listening uses the RX2 parameters");
        crate::vcheck!(matches!(c.mode, RxMode::Continuous), "C10: Class C listening is continuous");
    }
    // delays
    crate::vcheck!(mac.get_rx_delay(&Frame::Data, &Window::_1) == cfg.rx1_delay, "C10: RX1 opens after the negotiated delay");
    crate::vcheck!(mac.get_rx_delay(&Frame::Data, &Window::_2) == cfg.rx1_delay + 1000, "C10: RX2 opens one second after RX1");
    crate::vcheck!(mac.get_rx_delay(&Frame::Join, &Window::_1) == 5000 && mac.get_rx_delay(&Frame::Join, &Window::_2) == 6000, "C10: join accept delays are 5 s and 6 s");
    kani::cover!(cfg.rx1_dr_offset > 0, "non-zero RX1 offset");
}

macro_rules! hrx { ($name:ident, $ri:expr, $unw:expr) => {
    #[kani::proof]
    #[kani::stub(Session::prepare_buffer, stub_prepare_pub)]
    #[kani::unwind($unw)]
    fn $name() { rx_windows_step($ri) }
}; }
//@h id=rx_windows_r0 props=C10 tier=quick build=dev-eu868 cost=90 timeout=1500
//@bounds EU868: arbitrary plan and configuration under the invariants (every uplink DR, RX1 offset 0..=5, RX2 overrides, RX1 delay 1..=15 s, DlChannel remaps); RNG streams of <= 3 draws
//@encodes Mac::send, Mac::rx_windows, build_rf_config, rx2_rf_config, get_rx_delay, get_rxc_config, EU868Region::get_rx_datarate, DEFAULT_RX2_FREQ
//@assumes reference RX1 tables and RX2 defaults transcribed from RP002-1.0.x
hrx!(rx_windows_r0, 0, 74);
//@h id=rx_windows_us props=C10 tier=quick build=dev-us915 cost=120 timeout=1800
//@bounds US915: arbitrary mask/join bookkeeping/configuration (uplink DR0..4, RX1 offset 0..=3, all 72 channels)
//@assumes reference RX1 tables and RX2 defaults transcribed from RP002-1.0.x
hrx!(rx_windows_us, 0, 84);
//@h id=rx_windows_in865 props=C10,C04 tier=quick build=dev-in865 cost=90 timeout=1500
//@bounds IN865: every uplink DR x RX1 offset 0..=7 (offsets 6 and 7 are effective negative offsets)
//@assumes reference RX1 tables and RX2 defaults transcribed from RP002-1.0.x
hrx!(rx_windows_in865, 0, 74);
//@h id=rx_windows_eu433 props=C10,C04 tier=thorough build=dev-eu433 cost=90 timeout=1500
//@bounds EU433
hrx!(rx_windows_eu433, 0, 74);
//@h id=rx_windows_au915 props=C10,C04 tier=thorough build=dev-au915 cost=120 timeout=1800
//@bounds AU915
hrx!(rx_windows_au915, 0, 84);
//@h id=rx_windows_as923_1 props=C10,C04 tier=quick build=dev-as923 cost=90 timeout=1500
//@bounds AS923-1
hrx!(rx_windows_as923_1, 0, 74);
//@h id=rx_windows_as923_2 props=C10,C04 tier=thorough build=dev-as923 cost=90 timeout=1500
//@bounds AS923-2
hrx!(rx_windows_as923_2, 1, 74);
//@h id=rx_windows_as923_3 props=C10 tier=quick build=dev-as923 cost=90 timeout=1500
//@bounds AS923-3
hrx!(rx_windows_as923_3, 2, 74);
//@h id=rx_windows_as923_4 props=C10,C04 tier=thorough build=dev-as923 cost=90 timeout=1500
//@bounds AS923-4
hrx!(rx_windows_as923_4, 3, 74);

//@h id=rxc_not_joined props=C07,C11 tier=quick build=dev-eu868 cost=20 timeout=600
//@bounds Mac::handle_rxc on a device that is joining (arbitrary credentials) or unjoined, arbitrary frame bytes 0..=32: refused with NotJoined, the device state unchanged (this is the contract async_join_class_c uses)
//@encodes Mac::handle_rxc
#[cfg(feature = "class-c")]
#[kani::proof]
#[kani::unwind(34)]
fn rxc_not_joined() {
    crate::mac::verif_kani_lorawan_device_mac_common::vinit();
    let mut mac = Mac::new(region::Configuration::new(rt::region_ut(0)), kani::any(), kani::any());
    let joining: bool = kani::any();
    if joining {
        let creds = NetworkCredentials::new(
            crate::AppEui::from(kani::any::<[u8; 8]>()),
            crate::DevEui::from(kani::any::<[u8; 8]>()),
            crate::AppKey::from(kani::any::<[u8; 16]>()),
        );
        mac.state = State::Otaa(otaa::Otaa::new(creds));
    }
    let mut buf = RadioBuffer::<64>::new();
    let n: usize = kani::any();
    kani::assume(n <= 32);
    let bytes: [u8; 32] = kani::any();
    buf.as_mut()[..32].copy_from_slice(&bytes);
    buf.set_pos(n);
    let mut dl: Vec<Downlink, 1> = Vec::new();
    let rf = RfConfig {
        frequency: kani::any(),
        bb: lora_modulation::BaseBandModulationParams::new(
            lora_modulation::SpreadingFactor::_7, lora_modulation::Bandwidth::_125KHz, lora_modulation::CodingRate::_4_5),
        max_payload_len: kani::any(),
    };
    let r = mac.handle_rxc::<64, 1>(&mut buf, &mut dl, kani::any(), &rf);
    crate::vcheck!(matches!(r, Err(Error::NotJoined)), "C07: a frame heard by a device without a session is refused");
    crate::vcheck!(matches!((&mac.state, joining), (State::Otaa(_), true) | (State::Unjoined, false)) && dl.is_empty(),
        "C07: a frame heard by a device without a session changes nothing");
    kani::cover!(joining && n == 17, "joining, 17-byte frame");
}

//@h id=mac_session_api props=C20,C06,C12 tier=quick build=dev-eu868 cost=30 timeout=900
//@bounds Mac::{set_session, get_session, get_session_mut, get_fcnt_up, get_session_keys, is_joined, join_abp} for an arbitrary session (arbitrary keys, address, both counters, ADR counter, owed ACK, up to three pending answer bytes) on a device in any activation state: a restored session is installed and handed back unchanged in every field (so a restored device continues with the stored counters), ABP activation starts a session with the given keys and address and both counters fresh
//@encodes Mac::{set_session, get_session, get_session_mut, get_fcnt_up, get_session_keys, is_joined, join_abp}, Session::new
#[kani::proof]
#[kani::unwind(20)]
fn mac_session_api() {
    use crate::mac::session::verif_kani_lorawan_device_session_rx::{any_session, session_same};
    use lorawan::default_crypto::model;
    crate::mac::verif_kani_lorawan_device_mac_common::vinit();
    let mut mac = Mac::new(region::Configuration::new(rt::region_ut(0)), kani::any(), kani::any());
    match kani::any::<u8>() % 3 {
        0 => {}
        1 => {
            mac.state = State::Otaa(otaa::Otaa::new(NetworkCredentials::new(
                crate::AppEui::from(kani::any::<[u8; 8]>()),
                crate::DevEui::from(kani::any::<[u8; 8]>()),
                crate::AppKey::from(kani::any::<[u8; 16]>()),
            )))
        }
        _ => mac.state = State::Joined(any_session(&[])),
    }
    if kani::any() {
        // ---- restore
        let s = any_session(&[0x03, 0x08]);
        let keep = s.clone();
        mac.set_session(s);
        crate::vcheck!(mac.is_joined(), "C20: a device restored from a session is joined");
        match mac.get_session() {
            Some(got) => crate::vcheck!(session_same(got, &keep), "C20: the restored session equals the stored one in every field"),
            None => crate::vcheck!(false, "C20: the restored session is available"),
        }
        crate::vcheck!(mac.get_fcnt_up() == Some(keep.fcnt_up), "C20/C06: a restored device continues with the stored uplink counter (no rewind)");
        match mac.get_session_mut() {
            Some(got) => crate::vcheck!(session_same(got, &keep), "C20: the restored session equals the stored one in every field (mutable view)"),
            None => crate::vcheck!(false, "C20: the restored session is available"),
        }
        match mac.get_session_keys() {
            Some(k) => crate::vcheck!(model::pack(k.nwkskey.as_ref()) == model::pack(keep.nwkskey.as_ref())
                && model::pack(k.appskey.as_ref()) == model::pack(keep.appskey.as_ref()) && k.devaddr == keep.devaddr,
                "C20: session keys and address are those of the stored session"),
            None => crate::vcheck!(false, "C20: session keys available after restore"),
        }
        kani::cover!(keep.fcnt_down().is_none() && keep.fcnt_up == u32::MAX, "restored at counter exhaustion, no downlink yet");
    } else {
        // ---- activation by personalisation
        let (nk, ak, addr): ([u8; 16], [u8; 16], [u8; 4]) = (kani::any(), kani::any(), kani::any());
        mac.join_abp(NwkSKey::from(nk), AppSKey::from(ak), DevAddr::from_wire_bytes(addr));
        match mac.get_session() {
            Some(s) => {
                crate::vcheck!(model::pack(s.nwkskey.as_ref()) == model::pack(&nk) && model::pack(s.appskey.as_ref()) == model::pack(&ak),
                    "C12/C06: an ABP session uses the network and application session keys given, each in its own role");
                crate::vcheck!(s.devaddr == DevAddr::from_wire_bytes(addr), "C12: an ABP session carries the address given");
                crate::vcheck!(s.fcnt_up == 0 && s.fcnt_down().is_none() && s.adr_ack_cnt == 0 && !s.confirmed
                    && s.uplink.mac_commands().is_empty() && !s.uplink.confirms_downlink(),
                    "C06/C12: a new session starts with fresh counters, nothing pending and no ACK owed");
            }
            None => crate::vcheck!(false, "C06: ABP activation yields a session"),
        }
        kani::cover!(true, "abp");
    }
}
