//@file anchor=lorawan-device/src/mac/mod.rs
// MAC-level helpers: arbitrary Configuration, invariant I-dr, snapshots, RNG models.
use super::*;

/// Every harness static carries a unique tag: Kani resolves a *constant* whose bytes equal a
/// static's initial bytes to that static (rustc interns allocations by content), so writing to a
/// `static mut FLAG: bool = false` silently changed constants such as `DR::_0` in the code under
/// test (found on macs_r0_linkadr2, see DESIGN 9.4).  Unique initial content rules this out.
#[repr(C)]
pub(crate) struct Uq<T> {
    pub magic: u64,
    pub v: T,
}
pub(crate) use crate::region::verif_kani_lorawan_device_region_top as rt;
/// re-exported for the front-end harnesses (`mac::session` is private to `mac`)
pub(crate) use crate::mac::session::verif_kani_lorawan_device_session_rx::{any_session as any_session_pub, session_same as session_same_pub};

pub(crate) fn any_dr() -> DR {
    DR::from(kani::any::<u8>())
}

pub(crate) fn any_opt_dr() -> Option<DR> {
    if kani::any() { Some(any_dr()) } else { None }
}

pub(crate) fn any_configuration() -> Configuration {
    Configuration {
        data_rate: any_dr(),
        rx1_delay: kani::any(),
        join_accept_delay1: region::constants::JOIN_ACCEPT_DELAY1,
        join_accept_delay2: region::constants::JOIN_ACCEPT_DELAY2,
        tx_power: kani::any(),
        rx1_dr_offset: kani::any(),
        rx2_data_rate: any_opt_dr(),
        rx2_frequency: kani::any(),
        adr_enabled: kani::any(),
    }
}

fn defined(region: &region::Configuration, dr: DR) -> bool {
    (dr as u8) < 15 && region.get_datarate(dr as u8).is_some()
}

/// I-dr: data rate defined; RX1 offset within the regional maximum; RX2 data rate none or
/// defined; TX power none or a value of the regional table; RX1 delay one of 1..=15 s.
pub(crate) fn cfg_inv(c: &Configuration, region: &region::Configuration) -> bool {
    let tx_ok = match c.tx_power {
        None => true,
        Some(p) => {
            let mut ok = false;
            let mut i = 0u8;
            while i < 15 {
                if region.check_tx_power(i) == Some(Some(p)) {
                    ok = true;
                }
                i += 1;
            }
            ok
        }
    };
    defined(region, c.data_rate)
        && region.rx1_dr_offset_validate(c.rx1_dr_offset).is_some()
        && match c.rx2_data_rate { None => true, Some(d) => defined(region, d) }
        && tx_ok
        && c.rx1_delay >= 1000 && c.rx1_delay <= 15000 && c.rx1_delay % 1000 == 0
        && c.join_accept_delay1 == 5000 && c.join_accept_delay2 == 6000
}

pub(crate) fn cfg_same(a: &Configuration, b: &Configuration) -> bool {
    a.data_rate == b.data_rate && a.rx1_delay == b.rx1_delay
        && a.join_accept_delay1 == b.join_accept_delay1 && a.join_accept_delay2 == b.join_accept_delay2
        && a.tx_power == b.tx_power && a.rx1_dr_offset == b.rx1_dr_offset
        && a.rx2_data_rate == b.rx2_data_rate && a.rx2_frequency == b.rx2_frequency
        && a.adr_enabled == b.adr_enabled
}

/// RNG model "AnyRng": every draw is an arbitrary value; the number of draws is counted and
/// bounded (beyond `max` draws the path is cut with assume(false): safety over all streams of
/// at most `max` draws).
pub(crate) struct AnyRng {
    pub draws: u32,
    pub max: u32,
}
impl AnyRng {
    pub(crate) fn new(max: u32) -> Self { Self { draws: 0, max } }
}
impl rand_core::RngCore for AnyRng {
    fn next_u32(&mut self) -> u32 {
        kani::assume(self.draws < self.max);
        self.draws += 1;
        kani::any()
    }
    fn next_u64(&mut self) -> u64 { self.next_u32() as u64 }
    fn fill_bytes(&mut self, _dest: &mut [u8]) { unimplemented!() }
    fn try_fill_bytes(&mut self, _dest: &mut [u8]) -> core::result::Result<(), rand_core::Error> { unimplemented!() }
}

/// RNG model "EnumRng": a counter starting at an arbitrary value, so consecutive draws run
/// through every residue of every power-of-two mask the selection code applies.  If a retry
/// loop has not succeeded after `max` (> mask size) draws, no draw can ever succeed.  Exceeding
/// `max` is reported as a failed assertion (non-termination).
pub(crate) struct EnumRng {
    pub next: u32,
    pub draws: u32,
    pub max: u32,
}
impl EnumRng {
    pub(crate) fn new(max: u32) -> Self { Self { next: kani::any(), draws: 0, max } }
}
impl rand_core::RngCore for EnumRng {
    fn next_u32(&mut self) -> u32 {
        assert!(self.draws < self.max, "C04/C09: channel selection does not terminate (draw budget exhausted on an enumerating RNG)");
        self.draws += 1;
        let v = self.next;
        self.next = self.next.wrapping_add(1);
        v
    }
    fn next_u64(&mut self) -> u64 { self.next_u32() as u64 }
    fn fill_bytes(&mut self, _dest: &mut [u8]) { unimplemented!() }
    fn try_fill_bytes(&mut self, _dest: &mut [u8]) -> core::result::Result<(), rand_core::Error> { unimplemented!() }
}

/// RNG model "SliceRng": like EnumRng, for code that consumes a draw in 3-bit slices
/// (JoinChannels): every 3-bit slice of the n-th draw equals (start + n) mod 8, so eight
/// consecutive draws present every residue in every slice position.
pub(crate) struct SliceRng {
    pub next: u32,
    pub draws: u32,
    pub max: u32,
}
impl SliceRng {
    pub(crate) fn new(max: u32) -> Self { Self { next: kani::any(), draws: 0, max } }
}
impl rand_core::RngCore for SliceRng {
    fn next_u32(&mut self) -> u32 {
        assert!(self.draws < self.max, "C04/C09: channel selection does not terminate (draw budget exhausted on an enumerating RNG)");
        self.draws += 1;
        let c = self.next & 7;
        self.next = self.next.wrapping_add(1);
        c.wrapping_mul(0x4924_9249u32)
    }
    fn next_u64(&mut self) -> u64 { self.next_u32() as u64 }
    fn fill_bytes(&mut self, _dest: &mut [u8]) { unimplemented!() }
    fn try_fill_bytes(&mut self, _dest: &mut [u8]) -> core::result::Result<(), rand_core::Error> { unimplemented!() }
}

// ---- independent evaluation of tagged assertions ------------------------------------------------
// Kani (like Rust) treats a failed assertion as the end of the path, so in a harness that states
// facts of several properties the first failing assertion would mask all later ones -- and the
// per-property filter of check.py would then miss a violation whose assertion comes later.
// vcheck! evaluates each assertion only on the paths where a nondeterministic selector equals
// the assertion's source position: every assertion is decided independently of the others.
pub(crate) static mut VSEL: Uq<u32> = Uq { magic: 0x6C72760026DDDAE3, v: 0 };
pub(crate) static mut VSET: Uq<bool> = Uq { magic: 0x6C72760035B142B5, v: false };
/// must be called once at the start of every harness that uses vcheck! (statics persist between
/// the tests of one native playback process, so lazy initialisation would desynchronise replays)
pub(crate) fn vinit() {
    unsafe {
        VSEL.v = kani::any();
        VSET.v = true;
    }
}
pub(crate) fn vsel() -> u32 {
    unsafe {
        assert!(VSET.v, "harness bug: vinit() not called before vcheck!");
        VSEL.v
    }
}
#[macro_export]
macro_rules! vcheck {
    ($c:expr, $m:literal) => {
        if $crate::mac::verif_kani_lorawan_device_mac_common::vsel() == ((line!() << 8) | column!()) {
            assert!($c, $m);
        }
    };
}
