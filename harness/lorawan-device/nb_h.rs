//@file anchor=lorawan-device/src/nb_device/state.rs cfg=feature="region-eu868"
// C06-H2 / C07-H4 / C10-H3: one step of the non-blocking state machine from an arbitrary state,
// MAC replaced by contract stubs (ghost counter), radio answering any contract-legal response or
// failing.
use super::*;
use crate::mac::{self as macm, SendData};

/// Every harness static carries a unique tag: Kani resolves a *constant* whose bytes equal a
/// static's initial bytes to that static (rustc interns allocations by content), so writing to a
/// `static mut FLAG: bool = false` silently changed constants such as `DR::_0` in the code under
/// test (found on macs_r0_linkadr2, see DESIGN 9.4).  Unique initial content rules this out.
#[repr(C)]
pub(crate) struct Uq<T> {
    pub magic: u64,
    pub v: T,
}

static mut G_FCNT: Uq<u32> = Uq { magic: 0x6C7276008EDEBAB2, v: 0 };
static mut G_EXPIRED: Uq<bool> = Uq { magic: 0x6C72760088E791ED, v: false }; // the MAC answered SessionExpired in this step
static mut G_INFLIGHT: Uq<bool> = Uq { magic: 0x6C7276008816952D, v: false }; // a data frame built with G_FCNT.v was handed to the radio, counter not advanced yet
static mut G_HANDED: Uq<u32> = Uq { magic: 0x6C7276001CCDA520, v: 0 }; // TxRequests seen by the radio in this step
static mut G_IS_DATA: Uq<bool> = Uq { magic: 0x6C7276001089DF7D, v: false }; // the frame built in this step is a data frame
static mut G_RX_RF: Uq<(u32, u8, bool)> = Uq { magic: 0x6C7276001089DF7E, v: (0, 0, false) }; // (frequency, max payload) Mac::handle_rx was given in this step
static mut G_RXREQ: Uq<(u32, u8, bool)> = Uq { magic: 0x6C7276001089DF7F, v: (0, 0, false) }; // (frequency, max payload) of the RxRequest the radio saw in this step

fn any_rf() -> radio::RfConfig {
    radio::RfConfig {
        frequency: kani::any(),
        bb: lora_modulation::BaseBandModulationParams::new(
            lora_modulation::SpreadingFactor::_7, lora_modulation::Bandwidth::_125KHz, lora_modulation::CodingRate::_4_5),
        max_payload_len: kani::any(),
    }
}
fn any_windows() -> RxWindows {
    RxWindows { rx1: any_rf(), rx2: any_rf() }
}

fn stub_send<RNG: RngCore, const N: usize>(
    _m: &mut Mac, _rng: &mut RNG, _buf: &mut RadioBuffer<N>, _d: &SendData<'_>,
) -> macm::Result<(radio::TxConfig, RxWindows, macm::FcntUp)> {
    unsafe {
        if kani::any() {
            return Err(macm::Error::NotJoined);
        }
        G_IS_DATA.v = true;
        Ok((radio::TxConfig { pw: kani::any(), rf: any_rf() }, any_windows(), G_FCNT.v))
    }
}
fn stub_join<RNG: RngCore, const N: usize>(
    _m: &mut Mac, _rng: &mut RNG, _c: macm::NetworkCredentials, _buf: &mut RadioBuffer<N>,
) -> (radio::TxConfig, RxWindows, u16) {
    unsafe { G_IS_DATA.v = false; }
    (radio::TxConfig { pw: kani::any(), rf: any_rf() }, any_windows(), kani::any())
}
fn stub_handle_rx<const N: usize, const D: usize>(
    _m: &mut Mac, _buf: &mut RadioBuffer<N>, _dl: &mut Vec<Downlink, D>, _snr: i8, _rf: &radio::RfConfig,
) -> macm::Response {
    unsafe {
        G_RX_RF.v = (_rf.frequency, _rf.max_payload_len, true);
        if kani::any() {
            macm::Response::NoUpdate
        } else if G_FCNT.v == u32::MAX {
            G_EXPIRED.v = true; // the MAC says so; the front-end has to pass it on
            macm::Response::SessionExpired
        } else {
            G_FCNT.v += 1;
            G_INFLIGHT.v = false;
            macm::Response::DownlinkReceived(kani::any())
        }
    }
}
fn stub_rx2_complete(_m: &mut Mac) -> macm::Response {
    unsafe {
        if G_FCNT.v == u32::MAX {
            G_EXPIRED.v = true; // the counter is not consumed: the front-end has to report the expiry
            macm::Response::SessionExpired
        } else {
            G_INFLIGHT.v = false;
            G_FCNT.v += 1;
            if kani::any() { macm::Response::NoAck } else { macm::Response::RxComplete }
        }
    }
}
static mut G_DELAY: Uq<u32> = Uq { magic: 0x6C7276008ECE3401, v: 1000 }; // the negotiated RX1 delay (fixed during a step)
fn stub_get_rx_delay(_m: &Mac, frame: &Frame, w: &Window) -> u32 {
    let d: u32 = match frame { Frame::Join => 5000, Frame::Data => unsafe { G_DELAY.v } };
    match w { Window::_1 => d, Window::_2 => d + 1000 }
}

struct NbRadio {
    buf: [u8; 8],
    /// state-dependent legal answers: 0 = answering a TxRequest, 1 = SendingData, 2 = waiting for RX
    phase: u8,
}
impl radio::PhyRxTx for NbRadio {
    type PhyEvent = ();
    type PhyError = ();
    type PhyResponse = ();
    const MAX_RADIO_POWER: u8 = 20;
    fn get_mut_radio(&mut self) -> &mut Self { self }
    fn get_received_packet(&mut self) -> &mut [u8] { &mut self.buf }
    fn handle_event(&mut self, event: radio::Event<'_, Self>) -> Result<radio::Response<Self>, ()> {
        if let radio::Event::TxRequest(_, _) = event {
            unsafe {
                G_HANDED.v += 1;
                if G_IS_DATA.v {
                    G_INFLIGHT.v = true;
                }
            }
        }
        if let radio::Event::RxRequest(rf) = &event {
            unsafe { G_RXREQ.v = (rf.frequency, rf.max_payload_len, true); }
        }
        if kani::any() {
            return Err(());
        }
        let ts: u32 = kani::any();
        kani::assume(ts < 0x7FFF_0000);
        let pick: u8 = kani::any();
        Ok(match event {
            radio::Event::TxRequest(_, _) => if pick & 1 == 0 { radio::Response::Txing } else { radio::Response::TxDone(ts) },
            radio::Event::RxRequest(_) => radio::Response::Rxing,
            radio::Event::CancelRx => radio::Response::Idle,
            radio::Event::Phy(_) => {
                if self.phase == 1 {
                    radio::Response::TxDone(ts) // the only answer the front-end documents while sending
                } else {
                    match pick % 3 {
                        0 => radio::Response::RxDone(radio::RxQuality::new(kani::any(), kani::any())),
                        1 => radio::Response::Rxing,
                        _ => radio::Response::Idle,
                    }
                }
            }
        })
    }
}
impl Timings for NbRadio {
    fn get_rx_window_offset_ms(&self) -> i32 {
        let o: i32 = kani::any();
        kani::assume(o >= -1000 && o <= 1000);
        o
    }
    fn get_rx_window_duration_ms(&self) -> u32 {
        let d: u32 = kani::any();
        kani::assume(d <= 10_000);
        d
    }
}
struct NoRng;
impl RngCore for NoRng {
    fn next_u32(&mut self) -> u32 { kani::any() }
    fn next_u64(&mut self) -> u64 { kani::any() }
    fn fill_bytes(&mut self, _d: &mut [u8]) {}
    fn try_fill_bytes(&mut self, _d: &mut [u8]) -> core::result::Result<(), rand_core::Error> { Ok(()) }
}

fn any_frame() -> Frame { if kani::any() { Frame::Join } else { Frame::Data } }
fn any_rx() -> Rx {
    let t: u32 = kani::any();
    kani::assume(t < 0x7FFF_0000);
    if kani::any() { Rx::_1(t) } else { Rx::_2(t) }
}

/// `st`: 0 Idle, 1 SendingData, 2 WaitingForRxWindow, 3 WaitingForRx
fn nb_step(st: u8) {
    crate::mac::verif_kani_lorawan_device_mac_common::vinit();
    let start: u32 = kani::any();
    let frame = any_frame();
    let is_data = matches!(frame, Frame::Data);
    let delay_s: u32 = kani::any();
    kani::assume(delay_s >= 1 && delay_s <= 15);
    unsafe {
        G_DELAY.v = delay_s * 1000;
        G_FCNT.v = start;
        G_HANDED.v = 0;
        G_IS_DATA.v = false;
        // invariant I-cnt: Idle => nothing in flight; otherwise a data frame may be in flight
        G_INFLIGHT.v = if st == 0 { false } else { is_data && kani::any() };
        G_EXPIRED.v = false;
        G_RX_RF.v = (0, 0, false);
        G_RXREQ.v = (0, 0, false);
    }
    let inflight0 = unsafe { G_INFLIGHT.v };
    let windows = any_windows();
    let window = any_rx();
    let rf = any_rf();
    let state: State = match st {
        0 => State::Idle(Idle),
        1 => State::SendingData(SendingData { frame, rx_windows: windows }),
        2 => State::WaitingForRxWindow(WaitingForRxWindow { frame, rx_windows: windows, window }),
        _ => State::WaitingForRx(WaitingForRx { frame, rx_windows: windows, window, rf_config: rf }),
    };
    let mut mac = Mac::new(region::Configuration::new(region::Region::EU868), 20, 0);
    let mut radio = NbRadio { buf: kani::any(), phase: if st == 1 { 1 } else { 2 } };
    let mut rng = NoRng;
    let mut buf = RadioBuffer::<64>::new();
    let mut dl: Vec<Downlink, 1> = Vec::new();
    let payload = [0u8; 2];
    let ev: u8 = kani::any();
    let event: Event<'_, NbRadio> = match ev % 4 {
        0 => Event::TimeoutFired,
        1 => Event::RadioEvent(radio::Event::Phy(())),
        2 => Event::SendDataRequest(SendData { data: &payload, fport: 1, confirmed: kani::any() }),
        _ => Event::Join(macm::NetworkCredentials::new(
            crate::AppEui::from([0u8; 8]), crate::DevEui::from([0u8; 8]), crate::AppKey::from([0u8; 16]))),
    };
    let (next, result) = state.handle_event::<NbRadio, NoRng, 64, 1>(&mut mac, &mut radio, &mut rng, &mut buf, &mut dl, event);
    unsafe {
        // ---- C06: invariant preserved -- back in Idle (the only state that accepts a new send)
        // means the counter of a frame handed to the radio has been consumed or expiry reported
        if let State::Idle(_) = next {
            let reported = G_EXPIRED.v && matches!(result, Ok(Response::SessionExpired));
            crate::vcheck!(!G_INFLIGHT.v || reported, "C06: back in Idle although the frame handed to the radio has neither consumed its counter nor been reported as session expiry: the next uplink reuses the counter");
        }
        crate::vcheck!(G_FCNT.v == start || G_FCNT.v == start.wrapping_add(1), "C06: a step consumes at most one counter value");
        crate::vcheck!(G_HANDED.v <= 1, "C06: at most one frame is handed to the radio per step");
        if st != 0 {
            crate::vcheck!(G_HANDED.v == 0, "C06: no new frame is handed to the radio while a transaction is in progress");
        }
        // errors leave the machine able to complete: never Idle with the frame still in flight
        if result.is_err() && st != 0 {
            crate::vcheck!(!matches!(next, State::Idle(_)) || !inflight0 || !G_INFLIGHT.v, "C06: an error must not abandon an in-flight frame");
        }
    }
    // ---- C07: a frame the MAC does not accept keeps the receive window open, unchanged
    if st == 3 {
        if let (State::WaitingForRx(w), Ok(Response::NoUpdate)) = (&next, &result) {
            crate::vcheck!(w.rf_config == rf && w.rx_windows.rx1 == windows.rx1 && w.rx_windows.rx2 == windows.rx2, "C07: NoUpdate keeps the receive window and its configuration");
        }
    }
    // ---- C05/C10: a received frame is judged against the parameters of the window it was received
    // in, and each window is opened with the parameters bound to the uplink at TX time
    unsafe {
        if st == 3 && G_RX_RF.v.2 {
            crate::vcheck!(G_RX_RF.v.0 == rf.frequency && G_RX_RF.v.1 == rf.max_payload_len, "C05: a received frame is judged against the parameters (maximum size) of the window it was received in");
        }
        if st == 2 {
            let want = match window { Rx::_1(_) => windows.rx1, Rx::_2(_) => windows.rx2 };
            if G_RXREQ.v.2 {
                crate::vcheck!(G_RXREQ.v.0 == want.frequency && G_RXREQ.v.1 == want.max_payload_len, "C10: each receive window is opened with the parameters bound to the uplink at TX time");
            }
            if let State::WaitingForRx(n) = &next {
                crate::vcheck!(n.rf_config == want && G_RXREQ.v.2, "C05/C10: the open window remembers the parameters it was opened with");
            }
        }
        if st == 3 {
            if let (State::WaitingForRxWindow(_), true) = (&next, G_RXREQ.v.2) {
                crate::vcheck!(false, "C10: RX2 is opened by its own timeout, not while closing RX1");
            }
        }
    }
    // ---- C10: window timing
    if let Ok(Response::TimeoutRequest(t)) = &result {
        if st == 3 {
            if let (Rx::_1(t1), State::WaitingForRxWindow(n)) = (window, &next) {
                crate::vcheck!(*t == t1 + 1000, "C10: RX2 opens one second after RX1");
                crate::vcheck!(matches!(n.window, Rx::_2(x) if x == t1 + 1000), "C10: RX2 window bookkeeping");
                crate::vcheck!(n.rx_windows.rx2 == windows.rx2, "C10: RX2 uses the configuration bound at TX time");
            }
        }
    }
    kani::cover!(st != 3 || matches!(next, State::Idle(_)), "witness: step executed (WaitingForRx: receive procedure completed)");
}

macro_rules! nb { ($name:ident, $st:expr) => {
    #[kani::proof]
    #[kani::stub(Mac::send, stub_send)]
    #[kani::stub(Mac::join_otaa, stub_join)]
    #[kani::stub(Mac::handle_rx, stub_handle_rx)]
    #[kani::stub(Mac::rx2_complete, stub_rx2_complete)]
    #[kani::stub(Mac::get_rx_delay, stub_get_rx_delay)]
    #[kani::unwind(10)]
    fn $name() { nb_step($st) }
}; }
//@h id=nb_step_idle props=C06,C04 tier=quick build=dev-eu868 cost=40 timeout=900
//@bounds state Idle x every event kind (timeout, radio event, send request, join) x arbitrary counter x every radio answer (Txing, TxDone(t < 2^31), error)
//@encodes nb_device::state::Idle::handle_event, data_rxwindow1_timeout, From<mac::Response> for nb_device::Response
//@assumes Mac::{send, join_otaa, handle_rx, rx2_complete, get_rx_delay} replaced by contract stubs (facts proved at MAC level); the radio answers only response kinds its contract allows for the event
nb!(nb_step_idle, 0);
//@h id=nb_step_sending props=C06,C04 tier=quick build=dev-eu868 cost=40 timeout=900
//@bounds state SendingData (join or data frame, arbitrary windows) x every event kind x radio TxDone or error
//@assumes as nb_step_idle; while sending the radio answers a PHY event with TxDone or an error (anything else is outside its contract: the front-end panics)
nb!(nb_step_sending, 1);
//@h id=nb_step_rxwindow props=C06,C04,C10,C05 tier=quick build=dev-eu868 cost=40 timeout=900
//@bounds state WaitingForRxWindow (RX1 or RX2 pending at any time < 2^31) x every event kind x radio answers/errors
//@assumes as nb_step_idle
nb!(nb_step_rxwindow, 2);
//@h id=nb_step_rx props=C06,C04,C07,C10,C05 tier=quick build=dev-eu868 cost=60 timeout=900
//@bounds state WaitingForRx (RX1 or RX2 open) x every event kind x radio RxDone/Rxing/Idle/error x MAC accepting, rejecting or expiring
//@assumes as nb_step_idle
nb!(nb_step_rx, 3);

//@h id=nb_set_adr props=C12 tier=quick build=dev-eu868 cost=20 timeout=900
//@bounds nb_device::Device::{set_adr, get_adr, set_session, get_session, get_fcnt_up} with and without a session (arbitrary session): disabling ADR restarts the ADR acknowledgement count and changes nothing else, enabling it changes only the flag; a session handed to the device is handed back unchanged
//@encodes nb_device::Device::{set_adr, get_adr, set_session, get_session, get_fcnt_up, ready_to_send_data}
#[kani::proof]
#[kani::unwind(20)]
fn nb_set_adr() {
    use crate::mac::verif_kani_lorawan_device_mac_common::{any_session_pub as any_session, session_same_pub as session_same};
    crate::mac::verif_kani_lorawan_device_mac_common::vinit();
    let mut dev: crate::nb_device::Device<NbRadio, NoRng, 64, 1> =
        crate::nb_device::Device::new(region::Configuration::new(region::Region::EU868), NbRadio { buf: [0; 8], phase: 0 }, NoRng);
    let with_session: bool = kani::any();
    let s = any_session(&[0x08]);
    let mut want = s.clone();
    if with_session {
        dev.set_session(s);
        crate::vcheck!(dev.ready_to_send_data(), "C20: a device restored from a session can send");
        crate::vcheck!(dev.get_fcnt_up() == Some(want.fcnt_up), "C20/C06: a restored device continues with the stored uplink counter");
    }
    let en: bool = kani::any();
    dev.set_adr(en);
    crate::vcheck!(dev.get_adr() == en, "C12: ADR is enabled exactly when the application enabled it");
    if !en {
        want.adr_ack_cnt = 0;
    }
    match dev.get_session() {
        Some(got) => crate::vcheck!(with_session && session_same(got, &want), "C12: disabling ADR restarts the ADR acknowledgement count; nothing else in the session changes"),
        None => crate::vcheck!(!with_session, "C20: the session handed to the device is kept"),
    }
    kani::cover!(with_session && !en, "ADR disabled on a restored device");
}
