//@file anchor=lorawan-device/src/mac/session.rs
// C05-H2 / C06-H1 / C07-H1 / C12-H3: one Session::handle_rx step from an arbitrary session,
// MAC command handler stubbed out (DESIGN R2), crypto = uninterpreted model.
use super::*;
pub(crate) use crate::mac::verif_kani_lorawan_device_mac_common as mc;
pub(crate) use crate::mac::uplink::verif_kani_lorawan_device_uplink_h as uh;
use lorawan::default_crypto::model;

pub(crate) fn any_session(cids: &[u8]) -> Session {
    Session {
        uplink: uh::uplink_of(cids),
        confirmed: kani::any(),
        nwkskey: NwkSKey::from(kani::any::<[u8; 16]>()),
        appskey: AppSKey::from(kani::any::<[u8; 16]>()),
        devaddr: DevAddr::from_wire_bytes(kani::any()),
        fcnt_up: kani::any(),
        fcnt_down: kani::any(),
        adr_ack_cnt: kani::any(),
        #[cfg(feature = "certification")]
        override_confirmed: if kani::any() { Some(kani::any()) } else { None },
        #[cfg(feature = "certification")]
        rx_app_cnt: kani::any(),
    }
}
#[cfg(feature = "certification")]
fn cert_same(a: &Session, b: &Session) -> bool {
    a.override_confirmed == b.override_confirmed && a.rx_app_cnt == b.rx_app_cnt
}
#[cfg(not(feature = "certification"))]
fn cert_same(_a: &Session, _b: &Session) -> bool {
    true
}

pub(crate) fn session_same(a: &Session, b: &Session) -> bool {
    uh::same(&a.uplink, &b.uplink)
        && a.confirmed == b.confirmed
        && model::pack(a.nwkskey.as_ref()) == model::pack(b.nwkskey.as_ref())
        && model::pack(a.appskey.as_ref()) == model::pack(b.appskey.as_ref())
        && a.devaddr == b.devaddr
        && a.fcnt_up == b.fcnt_up
        && a.fcnt_down == b.fcnt_down
        && a.adr_ack_cnt == b.adr_ack_cnt
        && cert_same(a, b)
}

pub(crate) fn noop_macs(
    _s: &mut Session,
    _c: &mut super::super::Configuration,
    _r: &mut region::Configuration,
    _cmds: MacCommands<'_, DownlinkMacCommand<'_>>,
    _snr: i8,
) {
}

/// reference reconstruction (LoRaWAN 1.0.x 4.3.1.5): the unique N = wire (mod 2^16) with
/// last < N <= last + 16384 that fits 32 bits; first downlink: wire.
fn ref_next(last: Option<u32>, wire: u16) -> Option<u32> {
    match last {
        None => Some(wire as u32),
        Some(l) => {
            let l = l as u64;
            let base = (l & 0xFFFF_0000) | wire as u64;
            let n = if base > l { base } else { base + 0x1_0000 };
            if n <= l + 16384 && n <= u32::MAX as u64 { Some(n as u32) } else { None }
        }
    }
}

const RXN: usize = 64;
const MAXLEN: usize = 34;

/// `shape`: None = frame length 0..=34 and FOptsLen fully symbolic (thorough tier);
/// Some((len, fol)) = concrete frame length and FOptsLen nibble (DESIGN R1), everything else symbolic.
fn rx_step(ignore_mac: bool, shape: Option<(usize, u8)>) {
    crate::mac::verif_kani_lorawan_device_mac_common::vinit();
    let probe: usize = kani::any();
    model::reset(probe);
    // functional consistency of the block cipher model is not needed here (every keystream block
    // has a distinct input) and its Ackermann loop is unrolled once per keystream iteration
    unsafe { model::CONSISTENT.v = false; }
    let mut region = region::Configuration::new(mc::rt::region_ut(0));
    let mut cfg = mc::any_configuration();
    kani::assume(mc::cfg_inv(&cfg, &region));
    // two sticky answers and one plain answer pending
    let mut s = any_session(&[0x05, 0x03, 0x08]);
    let pre = s.clone();
    let cfg0 = cfg;
    let mut rx = RadioBuffer::<RXN>::new();
    let mut frame: [u8; RXN] = kani::any();
    let len: usize = match shape {
        Some((l, fol)) => {
            let hi: u8 = kani::any();
            frame[5] = (hi & 0xF0) | fol;
            l
        }
        None => kani::any(),
    };
    kani::assume(len <= MAXLEN);
    // certification build: the certification protocol's port is outside this harness
    #[cfg(feature = "certification")]
    if let Some((_, fol)) = shape {
        kani::assume(frame[8 + fol as usize] != 224);
    }
    rx.as_mut().copy_from_slice(&frame);
    rx.set_pos(len);
    let max_payload_len: u8 = kani::any();
    let snr: i8 = kani::any();
    let mut dl: Vec<Downlink, 1> = Vec::new();

    #[cfg(not(feature = "certification"))]
    let resp = s.handle_rx::<RXN, 1>(&mut region, &mut cfg, &mut rx, &mut dl, max_payload_len, snr, ignore_mac);
    #[cfg(feature = "certification")]
    let resp = {
        let mut cert = crate::mac::certification::Certification::new();
        s.handle_rx::<RXN, 1>(&mut region, &mut cfg, &mut cert, &mut rx, &mut dl, max_payload_len, snr, ignore_mac)
    };

    // ---- independent reference --------------------------------------------------------------
    let foptslen = (frame[5] & 0x0f) as usize;
    let mtype = frame[0] >> 5;
    let parses = len >= 12 && frame[0] & 3 == 0 && mtype >= 2 && mtype <= 5 && 8 + foptslen + 4 <= len;
    let oversize = parses && len > max_payload_len as usize + 5;
    let wire = u16::from_le_bytes([frame[6], frame[7]]);
    let n = ref_next(pre.fcnt_down, wire);
    let mut authentic = false;
    if parses && !oversize {
        if let Some(n) = n {
            unsafe {
                crate::vcheck!(model::MIC_N.v == 1, "C05: exactly one MIC computation for a parseable, fresh frame");
                let m = &model::MICS.v[0];
                crate::vcheck!(m.key == model::pack(pre.nwkskey.as_ref()), "C05: MIC must be verified under the NwkSKey");
                let dir = (frame[0] >> 5) & 1;
                crate::vcheck!(m.b0 == mc_b0(dir, [frame[1], frame[2], frame[3], frame[4]], n, len - 4),
                    "C05: MIC must be computed with the reconstructed 32-bit counter N and the frame's direction");
                crate::vcheck!(m.b0_len == 16 && m.len == len - 4, "C05: MIC covers the frame without its MIC");
                if probe < len - 4 {
                    crate::vcheck!(m.probe == frame[probe], "C05: MIC message must be the received bytes");
                }
                authentic = m.out[0] == frame[len - 4] && m.out[1] == frame[len - 3]
                    && m.out[2] == frame[len - 2] && m.out[3] == frame[len - 1];
            }
        } else {
            unsafe { crate::vcheck!(model::MIC_N.v == 0, "C05: stale/too-far counters are dropped before any MIC work"); }
        }
    }
    let accept = parses && !oversize && n.is_some() && authentic;
    // vacuity witness: shapes that can be accepted must reach the acceptance branch (with an
    // application payload where the shape has room for one); the others the rejection branch
    let can_accept = match shape { Some((l, fol)) => l >= 12 + fol as usize, None => true };
    let room = match shape { Some((l, fol)) => l > 13 + fol as usize, None => true };
    kani::cover!(if can_accept { accept && (!room || dl.len() == 1) } else { !parses },
        "witness: accepted downlink (payload delivered where the shape has one) / rejected as unparseable for shapes that cannot parse");
    kani::cover!(!can_accept || (parses && !accept && !oversize), "witness: rejected although parseable");

    if ignore_mac {
        // Class C listening (Mac::handle_rxc): the response goes to async_device::rxc_listen, whose
        // conversion ListenResponse::from panics on every response kind but these (DESIGN C04-H7),
        // and to between_windows, where it replaces the outcome of the send() in progress
        crate::vcheck!(matches!(resp, Response::NoUpdate | Response::DownlinkReceived(_) | Response::SessionExpired),
            "C04: a frame received while listening in Class C produces a response the listen front-end cannot convert (ListenResponse::from panics)");
    }
    if oversize {
        // C07: "may additionally end the current receive procedure as if it had timed out"
        let mut twin = pre.clone();
        let mut tcfg = cfg0;
        let tr = twin.rx2_complete(&mut tcfg, &region);
        let like_timeout = session_same(&s, &twin) && mc::cfg_same(&cfg, &tcfg) && same_resp(&resp, &tr);
        if ignore_mac {
            // outside the Class A windows there is no receive procedure to end: the frame is simply
            // not accepted (acting like a timeout is tolerated where the front-end can report it)
            let untouched = matches!(resp, Response::NoUpdate) && session_same(&s, &pre) && mc::cfg_same(&cfg, &cfg0);
            crate::vcheck!(untouched || like_timeout, "C07: an oversized frame heard in Class C must change nothing (or at most act like a receive timeout)");
            crate::vcheck!(dl.len() == 0, "C07: an oversized frame must not deliver data");
        } else {
            crate::vcheck!(session_same(&s, &twin) && mc::cfg_same(&cfg, &tcfg), "C07: an oversized frame may only act like a receive timeout");
            crate::vcheck!(same_resp(&resp, &tr), "C07: an oversized frame must be answered like a receive timeout");
        }
        kani::cover!(true, "info: oversized frame");
    } else if accept {
        let n = n.unwrap();
        kani::cover!(true, "info: accepted downlink");
        kani::cover!(n > 0xFFFF && (n as u16) < (pre.fcnt_down.unwrap_or(0) as u16), "info: accepted across a 16-bit roll-over");
        crate::vcheck!(s.fcnt_down == Some(n), "C05: the accepted counter N must be remembered");
        crate::vcheck!(s.adr_ack_cnt == 0, "C12: an accepted downlink restarts the ADR ACK counter");
        if pre.fcnt_up == u32::MAX {
            crate::vcheck!(matches!(resp, Response::SessionExpired), "C06: counter space exhausted must be reported as SessionExpired");
            crate::vcheck!(s.fcnt_up == u32::MAX, "C06: the uplink counter must not wrap");
        } else {
            crate::vcheck!(matches!(resp, Response::DownlinkReceived(x) if x == n), "C05: accepted downlink is reported with its counter N");
            crate::vcheck!(s.fcnt_up == pre.fcnt_up + 1, "C06: an accepted downlink advances FCntUp by exactly one");
        }
        let confirmed_dl = mtype == 5 || mtype == 4;
        crate::vcheck!(s.uplink.confirms_downlink() == (confirmed_dl || pre.uplink.confirms_downlink()),
            "C12: ACK is owed after an accepted confirmed downlink (and stays owed)");
        // sticky answers are cleared by a downlink accepted in a Class A window only
        if ignore_mac {
            crate::vcheck!(uh::pending(&s.uplink).len() == uh::pending(&pre.uplink).len(), "C08: a Class C downlink must not clear pending answers");
        } else {
            crate::vcheck!(uh::pending(&s.uplink).len() == 0, "C08: a downlink accepted in a Class A window clears the repeated answers");
        }
        // payload decryption: key by FPort, counter N, block index i
        let has_port = 8 + foptslen + 4 < len;
        let plen = if has_port { len - 4 - (8 + foptslen) - 1 } else { 0 };
        let nblocks = (plen + 15) / 16;
        unsafe {
            crate::vcheck!(model::ENC_N.v == nblocks, "C05: one keystream block per 16 payload bytes");
            if plen > 0 {
                let port = frame[8 + foptslen];
                let key = if port == 0 { model::pack(pre.nwkskey.as_ref()) } else { model::pack(pre.appskey.as_ref()) };
                let dir = (frame[0] >> 5) & 1;
                let addr = [frame[1], frame[2], frame[3], frame[4]];
                let j: usize = kani::any();
                kani::assume(j < nblocks);
                let e = model::ENC.v[j];
                crate::vcheck!(e.key == key, "C05: payload key is selected by FPort (0: NwkSKey, else AppSKey)");
                crate::vcheck!(e.input == mc_a(dir, addr, n, (j + 1) as u8), "C05: payload must be decrypted with the same counter N (block A_i)");
                if port != 0 && pre.fcnt_up != u32::MAX {
                    crate::vcheck!(dl.len() == 1, "C05: application payload is delivered");
                    crate::vcheck!(dl[0].fport == port && dl[0].data.len() == plen, "C05: delivered port/length");
                    let k: usize = kani::any();
                    kani::assume(k < plen && k / 16 == j);
                    let ks = model::byte(e.output, k % 16);
                    crate::vcheck!(dl[0].data[k] == frame[8 + foptslen + 1 + k] ^ ks, "C05: delivered plaintext = ciphertext xor keystream(N)");
                    kani::cover!(plen > 16, "info: two keystream blocks");
                }
            }
        }
    } else {
        kani::cover!(parses && n.is_some() && !authentic, "info: parseable fresh frame with wrong MIC");
        kani::cover!(parses && n.is_none(), "info: replayed / stale counter");
        kani::cover!(!parses, "info: unparseable bytes");
        crate::vcheck!(matches!(resp, Response::NoUpdate), "C05: a frame that is not authentic and fresh must not be acted upon");
        crate::vcheck!(s.fcnt_down == pre.fcnt_down, "C05: a rejected frame must not move the downlink counter");
        crate::vcheck!(session_same(&s, &pre), "C07: a rejected frame must leave the session unchanged");
        crate::vcheck!(mc::cfg_same(&cfg, &cfg0), "C07: a rejected frame must leave the MAC configuration unchanged");
        crate::vcheck!(dl.len() == 0, "C07: a rejected frame must not deliver data");
    }
}

fn same_resp(a: &Response, b: &Response) -> bool {
    match (a, b) {
        (Response::NoAck, Response::NoAck) => true,
        (Response::SessionExpired, Response::SessionExpired) => true,
        (Response::RxComplete, Response::RxComplete) => true,
        (Response::NoUpdate, Response::NoUpdate) => true,
        _ => false,
    }
}

fn mc_b0(dir: u8, addr: [u8; 4], fcnt: u32, len: usize) -> u128 {
    let mut b = [0u8; 16];
    b[0] = 0x49;
    b[5] = dir;
    b[6] = addr[0]; b[7] = addr[1]; b[8] = addr[2]; b[9] = addr[3];
    b[10] = fcnt as u8; b[11] = (fcnt >> 8) as u8; b[12] = (fcnt >> 16) as u8; b[13] = (fcnt >> 24) as u8;
    b[15] = len as u8;
    model::pack(&b)
}
fn mc_a(dir: u8, addr: [u8; 4], fcnt: u32, i: u8) -> u128 {
    let mut b = [0u8; 16];
    b[0] = 0x01;
    b[5] = dir;
    b[6] = addr[0]; b[7] = addr[1]; b[8] = addr[2]; b[9] = addr[3];
    b[10] = fcnt as u8; b[11] = (fcnt >> 8) as u8; b[12] = (fcnt >> 16) as u8; b[13] = (fcnt >> 24) as u8;
    b[15] = i;
    model::pack(&b)
}

macro_rules! rx_shape {
    ($name:ident, $ign:expr, $len:expr, $fol:expr) => {
        #[kani::proof]
        #[kani::stub(Session::handle_downlink_macs, noop_macs)]
        #[kani::unwind(24)]
        fn $name() {
            rx_step($ign, Some(($len, $fol)));
        }
    };
}

//@h id=rx_a_len12 props=C05,C06,C07,C08,C12 tier=quick build=dev-eu868 cost=40 timeout=900
//@bounds Class A window; frame of exactly 12 bytes (no FPort), FOptsLen 0; arbitrary session/configuration, all other bytes symbolic, every max_payload_len
//@encodes Session::handle_rx, next_fcnt_down, EncryptedDataPayload::{parse,validate_mic}, DecryptedDataPayload::decrypt_in_place, securityhelpers::*, Session::rx2_complete, Uplink::clear_mac_commands
//@assumes Session::handle_downlink_macs is stubbed by a no-op (verified separately by the C04/C08 harnesses); AES/CMAC are uninterpreted functions
rx_shape!(rx_a_len12, false, 12, 0);
//@h id=rx_a_len11 props=C05,C07 tier=quick build=dev-eu868 cost=20 timeout=900
//@bounds Class A window; 11 bytes (one short of the minimum): must be rejected without effect
rx_shape!(rx_a_len11, false, 11, 0);
//@h id=rx_a_len30 props=C05,C06,C07,C08,C12 tier=quick build=dev-eu868 tbuilds=dev-eu433,dev-in865,dev-as923 cost=90 timeout=900
//@bounds Class A window; 30 bytes, FOptsLen 0: FPort + 17-byte FRMPayload (two keystream blocks)
//@assumes Session::handle_downlink_macs is stubbed by a no-op; AES/CMAC are uninterpreted functions
rx_shape!(rx_a_len30, false, 30, 0);
//@h id=rx_a_len28_fopts15 props=C05,C06,C07,C08,C12 tier=quick build=dev-eu868 cost=60 timeout=900
//@bounds Class A window; 28 bytes with FOptsLen 15: FPort present, empty FRMPayload
//@assumes Session::handle_downlink_macs is stubbed by a no-op; AES/CMAC are uninterpreted functions
rx_shape!(rx_a_len28_fopts15, false, 28, 15);
//@h id=rx_a_len20_fopts15 props=C05,C07 tier=quick build=dev-eu868 cost=30 timeout=900
//@bounds Class A window; 20 bytes but FOptsLen 15 (FHDR truncated): must be rejected without effect
rx_shape!(rx_a_len20_fopts15, false, 20, 15);
//@h id=rx_c_len30 props=C04,C05,C06,C07,C08,C12 tier=quick build=dev-eu868 cost=90 timeout=900
//@bounds Class C listening (ignore_mac); 30 bytes, FOptsLen 0
//@assumes Session::handle_downlink_macs is stubbed by a no-op; AES/CMAC are uninterpreted functions
rx_shape!(rx_c_len30, true, 30, 0);
//@h id=rx_c_len17_fopts3 props=C04,C05,C06,C07,C08,C12 tier=quick build=dev-eu868 cost=60 timeout=900
//@bounds Class C listening (ignore_mac); 17 bytes, FOptsLen 3, FPort + 1 byte
//@assumes Session::handle_downlink_macs is stubbed by a no-op; AES/CMAC are uninterpreted functions
rx_shape!(rx_c_len17_fopts3, true, 17, 3);

//@h id=rx_step_class_a props=C05,C06,C07,C08,C12 tier=thorough build=dev-eu868 cost=500 timeout=3000
//@bounds arbitrary session (keys, address, both counters incl. fcnt_down=None, ADR counter, ACK owed, pending answers RXParamSetupAns+LinkADRAns+RXTimingSetupAns), arbitrary MAC configuration satisfying I-dr, every received byte string of length 0..=34 (all FOpts lengths, FRMPayload up to 22 bytes = 2 keystream blocks), every max_payload_len; Class A window (ignore_mac=false)
//@encodes Session::handle_rx, next_fcnt_down, EncryptedDataPayload::{parse,validate_mic}, DecryptedDataPayload::decrypt_in_place, securityhelpers::*, Session::rx2_complete, Uplink::clear_mac_commands
//@assumes Session::handle_downlink_macs is stubbed by a no-op (verified separately by the C04/C08 harnesses); AES/CMAC are uninterpreted functions
//@out frames longer than 34 bytes through handle_rx (MIC computation for frames up to 255 B is covered by validate_mic_iff)
#[kani::proof]
#[kani::stub(Session::handle_downlink_macs, noop_macs)]
#[kani::unwind(24)]
fn rx_step_class_a() {
    rx_step(false, None)
}

//@h id=rx_step_class_c props=C05,C06,C07,C08,C12 tier=thorough build=dev-eu868 cost=500 timeout=3000
//@bounds as rx_step_class_a, for a frame received while listening in Class C (ignore_mac=true)
//@encodes Session::handle_rx (ignore_mac path)
//@assumes Session::handle_downlink_macs is stubbed by a no-op; AES/CMAC are uninterpreted functions
#[kani::proof]
#[kani::stub(Session::handle_downlink_macs, noop_macs)]
#[kani::unwind(24)]
fn rx_step_class_c() {
    rx_step(true, None)
}

// ---- the same step with the non-default `certification` feature compiled in ----------------------
/// contract-free cut of the certification protocol parser (its payload handling is outside this
/// harness: frames on the certification port are assumed away below)
#[cfg(feature = "certification")]
fn stub_cert_message(
    _c: &mut crate::mac::certification::Certification,
    _data: &[u8],
    _cnt: u16,
) -> crate::mac::certification::Response {
    crate::mac::certification::Response::NoUpdate
}
//@h id=rx_a_len17_cert props=C07,C05 tier=quick build=dev-eu868-cert cost=120 timeout=1500
//@bounds `certification` feature compiled in: Class A window, 17 bytes, FOptsLen 0 (FPort + 4-byte FRMPayload), any port but the certification port 224; arbitrary session including the certification protocol's own fields (RxAppCnt, frame-type override): a frame that is not accepted leaves all of them unchanged, no counter arithmetic can overflow
//@encodes Session::handle_rx (certification build)
//@assumes Session::handle_downlink_macs stubbed by a no-op; Certification::handle_message cut (frames on port 224 assumed away); AES/CMAC are uninterpreted functions
#[cfg(feature = "certification")]
#[kani::proof]
#[kani::stub(Session::handle_downlink_macs, noop_macs)]
#[kani::stub(crate::mac::certification::Certification::handle_message, stub_cert_message)]
#[kani::unwind(24)]
fn rx_a_len17_cert() {
    rx_step(false, Some((17, 0)));
}
