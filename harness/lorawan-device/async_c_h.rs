//@file anchor=lorawan-device/src/async_device/mod.rs cfg=all(feature="region-eu868",feature="class-c")
// Class C front-end paths (built WITH the class-c feature): listening between the Class A windows
// (futures::select of the radio against the window timer), the re-arming of continuous reception
// after each window, and rxc_listen().  C06 (counters under Class C receptions), C10 (Class C
// listening uses the RX2 parameters), C04-H7 (no response kind reaches a panicking conversion),
// C07 (a frame the MAC does not accept leaves the device listening, nothing else).
// Same contract-stub technique as async_h.rs; infrastructure: async_common.rs.
use super::*;
use super::verif_kani_lorawan_device_async_common::{
    any_rf, block_on, stub_get_rx_delay, stub_handle_rx, stub_rx2_complete, stub_send, MTimer,
    NoRng, Uq, G_BUILT, G_FCNT, G_LAST_RXCFG, G_RX_CALLS,
};
use core::task::Poll;

/// log of the receive configurations handed to the radio: (frequency, 0 = continuous / 1 = single)
static mut C_LOG: Uq<([(u32, u8); 12], usize)> = Uq { magic: 0x6C727600C1A55C01, v: ([(0, 0); 12], 0) };
static mut C_RXC_F: Uq<u32> = Uq { magic: 0x6C727600C1A55C02, v: 0 }; // frequency of the RXC configuration (ghost)
static mut C_RXC_CALLS: Uq<u32> = Uq { magic: 0x6C727600C1A55C03, v: 0 }; // Mac::handle_rxc calls
static mut C_RXC_ACCEPTED: Uq<u32> = Uq { magic: 0x6C727600C1A55C04, v: 0 };
static mut C_RXC_NOUPDATE: Uq<u32> = Uq { magic: 0x6C727600C1A55C05, v: 0 };
static mut C_EXPIRED: Uq<bool> = Uq { magic: 0x6C727600C1A55C06, v: false };

fn log_at(i: usize) -> (u32, u8) {
    // explicit selection (R4: no symbolic index into a logged array)
    unsafe {
        let l = C_LOG.v.0;
        match i {
            0 => l[0], 1 => l[1], 2 => l[2], 3 => l[3], 4 => l[4], 5 => l[5],
            6 => l[6], 7 => l[7], 8 => l[8], 9 => l[9], 10 => l[10], _ => l[11],
        }
    }
}

struct CRadio {
    calls: usize,
    fail_at: usize,
    tx_calls: usize,
    tx_ok: usize,
    low_power_calls: usize,
    /// frames the continuous reception may still deliver (afterwards it stays pending)
    rxc_budget: usize,
    rxc_delivered: usize,
    rx_single_calls: usize,
    /// frames are heard only while waiting for the first window
    first_wait_only: bool,
}
impl CRadio {
    fn new(fail_at: usize, rxc_budget: usize) -> Self {
        CRadio { calls: 0, fail_at, tx_calls: 0, tx_ok: 0, low_power_calls: 0, rxc_budget, rxc_delivered: 0, rx_single_calls: 0, first_wait_only: false }
    }
    fn step(&mut self) -> Result<(), ()> {
        let k = self.calls;
        self.calls += 1;
        if k == self.fail_at { Err(()) } else { Ok(()) }
    }
}
impl radio::PhyRxTx for CRadio {
    type PhyError = ();
    const MAX_RADIO_POWER: u8 = 20;
    async fn tx(&mut self, _config: radio::TxConfig, _buf: &[u8]) -> Result<u32, ()> {
        self.tx_calls += 1;
        self.step()?;
        self.tx_ok += 1;
        let ms: u32 = kani::any();
        kani::assume(ms < 0x7FFF_0000);
        Ok(ms)
    }
    async fn setup_rx(&mut self, config: radio::RxConfig) -> Result<(), ()> {
        unsafe {
            let n = C_LOG.v.1;
            let tag = match config.mode { radio::RxMode::Continuous => 0u8, radio::RxMode::Single { .. } => 1u8 };
            match n {
                0 => C_LOG.v.0[0] = (config.rf.frequency, tag), 1 => C_LOG.v.0[1] = (config.rf.frequency, tag),
                2 => C_LOG.v.0[2] = (config.rf.frequency, tag), 3 => C_LOG.v.0[3] = (config.rf.frequency, tag),
                4 => C_LOG.v.0[4] = (config.rf.frequency, tag), 5 => C_LOG.v.0[5] = (config.rf.frequency, tag),
                6 => C_LOG.v.0[6] = (config.rf.frequency, tag), 7 => C_LOG.v.0[7] = (config.rf.frequency, tag),
                8 => C_LOG.v.0[8] = (config.rf.frequency, tag), 9 => C_LOG.v.0[9] = (config.rf.frequency, tag),
                10 => C_LOG.v.0[10] = (config.rf.frequency, tag), 11 => C_LOG.v.0[11] = (config.rf.frequency, tag),
                _ => {}
            }
            C_LOG.v.1 = n + 1;
            G_LAST_RXCFG.v = (config.rf.frequency, config.rf.max_payload_len, true);
        }
        self.step()
    }
    async fn rx_continuous(&mut self, _rx_buf: &mut [u8]) -> Result<(usize, radio::RxQuality), ()> {
        // a frame arrives (or the radio fails) before the timer fires, or nothing arrives: pending
        if self.rxc_delivered >= self.rxc_budget || (self.first_wait_only && self.rx_single_calls > 0) || !kani::any::<bool>() {
            core::future::poll_fn(|_| Poll::<()>::Pending).await;
        }
        self.rxc_delivered += 1;
        self.step()?;
        let n: usize = kani::any();
        kani::assume(n <= _rx_buf.len());
        Ok((n, radio::RxQuality::new(kani::any(), kani::any())))
    }
    async fn rx_single(&mut self, _buf: &mut [u8]) -> Result<radio::RxStatus, ()> {
        self.rx_single_calls += 1;
        self.step()?;
        if kani::any() {
            let n: usize = kani::any();
            kani::assume(n <= _buf.len());
            Ok(radio::RxStatus::Rx(n, radio::RxQuality::new(kani::any(), kani::any())))
        } else {
            Ok(radio::RxStatus::RxTimeout)
        }
    }
    async fn low_power(&mut self) -> Result<(), ()> {
        self.low_power_calls += 1;
        self.step()
    }
}
impl Timings for CRadio {
    fn get_rx_window_lead_time_ms(&self) -> u32 {
        let l: u32 = kani::any();
        kani::assume(l <= 1000);
        l
    }
}

/// contract of Mac::handle_rxc in the Joined state (Session::handle_rx with ignore_mac, decided by
/// the rx_c_* harnesses): nothing changes (NoUpdate), or the frame is accepted and FCntUp advances
/// by one, or the counter space is exhausted and SessionExpired is reported without wrapping
fn stub_handle_rxc<const N: usize, const D: usize>(
    _m: &mut Mac,
    _buf: &mut RadioBuffer<N>,
    _dl: &mut Vec<Downlink, D>,
    _snr: i8,
    _rf: &RfConfig,
) -> mac::Result<mac::Response> {
    unsafe {
        C_RXC_CALLS.v += 1;
        assert!(_rf.frequency == C_RXC_F.v, "C05/C10: a frame heard while listening in Class C is judged against the RX2 parameters");
        if kani::any() {
            C_RXC_NOUPDATE.v += 1;
            Ok(mac::Response::NoUpdate)
        } else if G_FCNT.v == u32::MAX {
            C_EXPIRED.v = true;
            Ok(mac::Response::SessionExpired)
        } else {
            G_FCNT.v += 1;
            C_RXC_ACCEPTED.v += 1;
            Ok(mac::Response::DownlinkReceived(kani::any()))
        }
    }
}
/// contract of Mac::get_rxc_config (decided by rx_windows_*: continuous reception with the RX2
/// parameters): here the RX2 parameters are the ghost frequency C_RXC_F
fn stub_get_rxc_config(_m: &Mac) -> radio::RxConfig {
    let mut rf = any_rf();
    rf.frequency = unsafe { C_RXC_F.v };
    radio::RxConfig { rf, mode: radio::RxMode::Continuous }
}
/// Mac::send contract as stub_send, with window frequencies different from the RXC frequency so
/// that the log tells the configurations apart
fn stub_send_c<RNG: RngCore, const N: usize>(
    m: &mut Mac,
    rng: &mut RNG,
    buf: &mut RadioBuffer<N>,
    d: &SendData<'_>,
) -> mac::Result<(radio::TxConfig, mac::RxWindows, mac::FcntUp)> {
    let r = stub_send(m, rng, buf, d);
    if let Ok((_, w, _)) = &r {
        kani::assume(w.rx1.frequency != unsafe { C_RXC_F.v } && w.rx2.frequency != unsafe { C_RXC_F.v });
    }
    r
}

fn reset_ghosts(start: u32) {
    unsafe {
        G_FCNT.v = start;
        G_BUILT.v = 0;
        G_RX_CALLS.v = 0;
        C_LOG.v.1 = 0;
        C_RXC_F.v = kani::any();
        C_RXC_CALLS.v = 0;
        C_RXC_ACCEPTED.v = 0;
        C_RXC_NOUPDATE.v = 0;
        C_EXPIRED.v = false;
    }
}

//@h id=async_rxc_listen props=C06,C04,C07 tier=quick build=dev-eu868 cost=90 timeout=1800
//@bounds Device::rxc_listen on a joined Class C device from an arbitrary uplink counter: up to three frames heard, each rejected (NoUpdate), accepted or hitting counter exhaustion; the radio failing at an arbitrary call or not at all
//@encodes async_device::Device::{rxc_listen, handle_mac_response}, From<mac::Response> for ListenResponse
//@assumes Mac::{handle_rxc, get_rxc_config} replaced by contract stubs (facts decided by rx_c_* and rx_windows_*); timers immediate; a continuous reception that never delivers is cut (assume false)
#[kani::proof]
#[kani::stub(Mac::handle_rxc, stub_handle_rxc)]
#[kani::stub(Mac::get_rxc_config, stub_get_rxc_config)]
#[kani::stub(Mac::rx2_complete, stub_rx2_complete)]
#[kani::unwind(5)]
fn async_rxc_listen() {
    crate::mac::verif_kani_lorawan_device_mac_common::vinit();
    let start: u32 = kani::any();
    reset_ghosts(start);
    let radio = CRadio::new(kani::any(), 3);
    let mut dev: Device<CRadio, MTimer, NoRng, 64, 1> =
        Device::new(region::Configuration::new(region::Region::EU868), radio, MTimer, NoRng);
    dev.enable_class_c();
    let r = block_on(dev.rxc_listen());
    unsafe {
        crate::vcheck!(dev.radio.tx_calls == 0, "C06: listening in Class C hands no frame to the radio");
        crate::vcheck!(C_LOG.v.1 == 0 && dev.radio.low_power_calls == 0,
            "C07: frames heard while listening do not reconfigure the radio");
        match &r {
            Ok(ListenResponse::DownlinkReceived(_)) => {
                crate::vcheck!(C_RXC_ACCEPTED.v == 1 && G_FCNT.v == start + 1, "C06: an accepted Class C downlink advances FCntUp by one");
            }
            Ok(ListenResponse::SessionExpired) => {
                crate::vcheck!(C_EXPIRED.v && start == u32::MAX && G_FCNT.v == start, "C06: expiry is reported exactly at counter exhaustion, without wrapping");
            }
            Err(_) => {
                crate::vcheck!(C_RXC_ACCEPTED.v == 0 && G_FCNT.v == start, "C07: a radio error while listening leaves the counters alone");
            }
        }
        // frames the MAC did not accept: the device kept listening, nothing else
        crate::vcheck!(C_RXC_CALLS.v == C_RXC_NOUPDATE.v + if r.is_ok() { 1 } else { 0 },
            "C07: every frame that is not accepted is followed by further listening, the first accepted one ends the call");
        kani::cover!(r.is_ok() && C_RXC_NOUPDATE.v == 2, "accepted after two foreign frames");
        kani::cover!(matches!(r, Ok(ListenResponse::SessionExpired)), "expiry reported from rxc_listen");
    }
}

// ---- joining with Class C enabled --------------------------------------------------------------------
static mut CJ_STATE: Uq<u8> = Uq { magic: 0x6C727600C1A55C11, v: 0 }; // ghost MAC state: 0 unjoined, 1 joining, 2 joined
static mut CJ_W: Uq<(u32, u32)> = Uq { magic: 0x6C727600C1A55C12, v: (0, 0) }; // RX1 / RX2 frequencies bound to the request

fn stub_join_otaa_c<RNG: RngCore, const N: usize>(
    _m: &mut Mac,
    _rng: &mut RNG,
    _c: NetworkCredentials,
    _buf: &mut RadioBuffer<N>,
) -> (radio::TxConfig, mac::RxWindows, u16) {
    unsafe { CJ_STATE.v = 1 };
    let (w1, w2) = (any_rf(), any_rf());
    kani::assume(w1.frequency != unsafe { C_RXC_F.v } && w2.frequency != unsafe { C_RXC_F.v });
    unsafe { CJ_W.v = (w1.frequency, w2.frequency) };
    (radio::TxConfig { pw: kani::any(), rf: any_rf() }, mac::RxWindows { rx1: w1, rx2: w2 }, kani::any())
}
fn stub_handle_rx_join_c<const N: usize, const D: usize>(
    _m: &mut Mac,
    _buf: &mut RadioBuffer<N>,
    _dl: &mut Vec<Downlink, D>,
    _snr: i8,
    _rf: &RfConfig,
) -> mac::Response {
    unsafe {
        if CJ_STATE.v == 1 && kani::any() {
            CJ_STATE.v = 2;
            mac::Response::JoinSuccess
        } else {
            mac::Response::NoUpdate
        }
    }
}
fn stub_rx2_complete_join_c(_m: &mut Mac) -> mac::Response {
    mac::Response::NoJoinAccept
}
/// contract of Mac::handle_rxc while the device is not joined (decided by rxc_not_joined): the
/// frame is refused with NotJoined and nothing changes
fn stub_handle_rxc_join<const N: usize, const D: usize>(
    _m: &mut Mac,
    _buf: &mut RadioBuffer<N>,
    _dl: &mut Vec<Downlink, D>,
    _snr: i8,
    _rf: &RfConfig,
) -> mac::Result<mac::Response> {
    unsafe { C_RXC_CALLS.v += 1 };
    Err(mac::Error::NotJoined)
}

// ---- the Class C pieces of a transaction, one call each (the send-level composition with the
// class-c feature compiled in is the thorough-tier harness async_send_class_c) ---------------------

//@h id=async_between_windows_c props=C06,C07,C10 tier=quick build=dev-eu868 cost=240 timeout=1800
//@bounds one Device::between_windows(duration) on a joined Class C device, arbitrary duration and uplink counter: at most one frame heard before the timer fires (each rejected, accepted or hitting counter exhaustion) or silence (futures::select decided both ways), the radio failing at an arbitrary call or not at all
//@encodes async_device::Device::between_windows (class-c: futures::select of PhyRxTx::rx_continuous against Timer::at, rxc_listen_until_timeout), handle_mac_response
//@assumes Mac::{handle_rxc, get_rxc_config, rx2_complete} replaced by contract stubs; the timer future is ready when polled (it wins the select exactly when the radio stays pending)
#[kani::proof]
#[kani::stub(Mac::handle_rxc, stub_handle_rxc)]
#[kani::stub(Mac::get_rxc_config, stub_get_rxc_config)]
#[kani::stub(Mac::rx2_complete, stub_rx2_complete)]
#[kani::unwind(4)]
fn async_between_windows_c() {
    crate::mac::verif_kani_lorawan_device_mac_common::vinit();
    let start: u32 = kani::any();
    reset_ghosts(start);
    let radio = CRadio::new(kani::any(), 1);
    let mut dev: Device<CRadio, MTimer, NoRng, 64, 1> =
        Device::new(region::Configuration::new(region::Region::EU868), radio, MTimer, NoRng);
    dev.enable_class_c();
    let r = block_on(dev.between_windows(kani::any()));
    let faulted = dev.radio.fail_at < dev.radio.calls;
    unsafe {
        crate::vcheck!(dev.radio.tx_calls == 0 && dev.radio.low_power_calls == 0, "C10: a Class C device listens between the windows: nothing is transmitted and the radio is not put to sleep");
        crate::vcheck!(C_LOG.v.1 == 1 && log_at(0) == (C_RXC_F.v, 0), "C10: Class C listening between the windows is continuous reception with the RX2 parameters, configured once");
        crate::vcheck!(G_FCNT.v == start.wrapping_add(C_RXC_ACCEPTED.v) && (start as u64) + (C_RXC_ACCEPTED.v as u64) <= u32::MAX as u64,
            "C06: each accepted Class C downlink advances FCntUp by one and nothing else does; no wrap");
        match &r {
            Ok(_) => {}
            Err(_) => crate::vcheck!(faulted && dev.radio.fail_at == 0, "C07: only a failure to start listening ends the wait with an error; frames that are not accepted and reception errors do not"),
        }
        if r.is_ok() {
            crate::vcheck!(C_RXC_CALLS.v == dev.radio.rxc_delivered as u32 - if faulted && dev.radio.fail_at > 0 { 1 } else { 0 },
                "C07: every frame heard is offered to the MAC and the wait goes on until the timer fires");
        }
        kani::cover!(r.is_ok() && C_RXC_ACCEPTED.v == 1, "a frame accepted before the window");
        kani::cover!(r.is_ok() && C_RXC_NOUPDATE.v == 1, "a foreign frame before the window");
        kani::cover!(r.is_ok() && C_RXC_CALLS.v == 0, "silence until the timer fires");
    }
}

//@h id=async_window_complete_c props=C10 tier=quick build=dev-eu868 cost=30 timeout=900
//@bounds Device::window_complete on a device with Class C enabled or not, radio fault or none: a Class C device resumes continuous reception with the RX2 parameters after each window, a Class A device puts the radio to sleep
//@encodes async_device::Device::window_complete
//@assumes Mac::get_rxc_config replaced by its contract stub
#[kani::proof]
#[kani::stub(Mac::get_rxc_config, stub_get_rxc_config)]
#[kani::unwind(3)]
fn async_window_complete_c() {
    crate::mac::verif_kani_lorawan_device_mac_common::vinit();
    reset_ghosts(kani::any());
    let radio = CRadio::new(kani::any(), 0);
    let mut dev: Device<CRadio, MTimer, NoRng, 64, 1> =
        Device::new(region::Configuration::new(region::Region::EU868), radio, MTimer, NoRng);
    let class_c: bool = kani::any();
    if class_c {
        dev.enable_class_c();
    }
    let r = block_on(dev.window_complete());
    unsafe {
        if class_c {
            crate::vcheck!(C_LOG.v.1 == 1 && log_at(0) == (C_RXC_F.v, 0) && dev.radio.low_power_calls == 0, "C10: after a window a Class C device listens again, continuously, with the RX2 parameters");
        } else {
            crate::vcheck!(C_LOG.v.1 == 0 && dev.radio.low_power_calls == 1, "C10: after a window a Class A device does not keep listening");
        }
        crate::vcheck!(r.is_ok() == (dev.radio.fail_at != 0), "C04: the radio's answer is passed on");
        kani::cover!(class_c && r.is_ok(), "class c resumes listening");
    }
}

//@h id=async_between_windows_unjoined props=C07,C11 tier=quick build=dev-eu868 cost=240 timeout=1800
//@bounds one Device::between_windows(duration) with Class C enabled on a device that has no session yet (it is waiting for the windows of its JoinRequest): at most one frame heard before the timer fires, or silence, fault-free radio: a frame heard there cannot be for this device, it has no effect and the wait for the join window goes on (Device::join around it: async_join)
//@encodes async_device::Device::between_windows (class-c), handle_mac_response
//@assumes Mac::handle_rxc replaced by its contract for a device without a session (NotJoined, nothing changes: decided by rxc_not_joined); Mac::get_rxc_config by its contract stub; timers immediate
#[kani::proof]
#[kani::stub(Mac::handle_rxc, stub_handle_rxc_join)]
#[kani::stub(Mac::get_rxc_config, stub_get_rxc_config)]
#[kani::stub(Mac::rx2_complete, stub_rx2_complete_join_c)]
#[kani::unwind(4)]
fn async_between_windows_unjoined() {
    crate::mac::verif_kani_lorawan_device_mac_common::vinit();
    reset_ghosts(0);
    let radio = CRadio::new(usize::MAX, 1);
    let mut dev: Device<CRadio, MTimer, NoRng, 64, 1> =
        Device::new(region::Configuration::new(region::Region::EU868), radio, MTimer, NoRng);
    dev.enable_class_c();
    let r = block_on(dev.between_windows(kani::any()));
    unsafe {
        crate::vcheck!(r.is_ok(), "C07/C11: a frame heard on the Class C channel while waiting for a join window (no radio fault) ended the wait with an error instead of having no effect");
        crate::vcheck!(matches!(r, Ok(None)), "C07: nothing is reported for frames heard without a session");
        crate::vcheck!(dev.radio.tx_calls == 0 && dev.radio.low_power_calls == 0 && C_LOG.v.1 == 1, "C07: frames heard while waiting do not reconfigure the radio");
        crate::vcheck!(C_RXC_CALLS.v == dev.radio.rxc_delivered as u32, "C07: every frame heard is offered to the MAC and the wait goes on until the timer fires");
        kani::cover!(r.is_ok() && C_RXC_CALLS.v == 1, "a frame heard while waiting for a join window");
    }
}
