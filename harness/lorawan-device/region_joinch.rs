//@file anchor=lorawan-device/src/region/fixed_channel_plans/join_channels.rs
// Helpers: arbitrary JoinChannels bookkeeping for fixed plans.
use super::*;

pub(crate) fn any_subband() -> Option<Subband> {
    let i: u8 = kani::any();
    kani::assume(i <= 8);
    match i {
        0 => None,
        1 => Some(Subband::_1),
        2 => Some(Subband::_2),
        3 => Some(Subband::_3),
        4 => Some(Subband::_4),
        5 => Some(Subband::_5),
        6 => Some(Subband::_6),
        7 => Some(Subband::_7),
        _ => Some(Subband::_8),
    }
}

/// A *reachable* AvailableChannels state, generated from its parameters (generator-style
/// invariant): offsets `used` have been consumed in every bank in completed rounds; in the
/// current round offset `o` has been consumed in the `v` banks b0, b0+1, ... (cyclically over
/// the 9 banks); `previous` is the channel consumed last.  v = 0 with used = 0 is the fresh state.
pub(crate) fn any_available() -> AvailableChannels {
    let used: u8 = kani::any();
    let o: u8 = kani::any();
    let b0: u8 = kani::any();
    let v: u8 = kani::any();
    kani::assume(o < 8 && b0 < 8 && v <= 9);
    kani::assume(used & (1 << o) == 0);
    let mut data = [0u8; 9];
    let mut previous = None;
    let mut bank = 0u8;
    while bank < 9 {
        let mut bits = !used;
        // position of `bank` in the visiting order starting at b0
        let pos = (bank + 9 - b0) % 9;
        if pos < v {
            bits &= !(1 << o);
        }
        data[bank as usize] = bits;
        bank += 1;
    }
    if v > 0 {
        previous = Some(((b0 + v - 1) % 9) * 8 + o);
    } else {
        // nothing consumed in this round: only the fresh state has no `previous`
        kani::assume(used == 0);
    }
    AvailableChannels { data: ChannelMask::from(data), previous }
}

/// arbitrary reachable bookkeeping state
pub(crate) fn any_join_channels() -> JoinChannels {
    let jc = JoinChannels {
        max_retries: kani::any(),
        num_retries: kani::any(),
        preferred_subband: any_subband(),
        available_channels: any_available(),
        previous_channel: kani::any(),
    };
    kani::assume(inv(&jc));
    jc
}

/// I-fix (join part): channel numbers are < 72, counters cannot overflow in one step; a bias
/// that has not been used up implies untouched round-robin bookkeeping (both are reset together)
pub(crate) fn inv(jc: &JoinChannels) -> bool {
    jc.previous_channel < 72
        && match jc.available_channels.previous { Some(p) => p < 72, None => true }
        && jc.num_retries < usize::MAX
}

pub(crate) fn same(a: &JoinChannels, b: &JoinChannels) -> bool {
    let mut eq = a.max_retries == b.max_retries
        && a.num_retries == b.num_retries
        && a.preferred_subband == b.preferred_subband
        && a.previous_channel == b.previous_channel
        && a.available_channels.previous == b.available_channels.previous;
    macro_rules! bank { ($i:expr) => { if a.available_channels.data.get_index($i) != b.available_channels.data.get_index($i) { eq = false; } }; }
    bank!(0); bank!(1); bank!(2); bank!(3); bank!(4); bank!(5); bank!(6); bank!(7); bank!(8);
    eq
}
