//@file anchor=lorawan-device/src/region/fixed_channel_plans/join_channels.rs
// Helpers: arbitrary JoinChannels bookkeeping for fixed plans.
use super::*;

pub(crate) fn any_subband() -> Option<Subband> {
    let i: u8 = kani::any();
    kani::assume(i <= 8);
    match i {
        0 => None,
        1 => Some(Subband::_1),
        2 => Some(Subband::_2),
        3 => Some(Subband::_3),
        4 => Some(Subband::_4),
        5 => Some(Subband::_5),
        6 => Some(Subband::_6),
        7 => Some(Subband::_7),
        _ => Some(Subband::_8),
    }
}

/// arbitrary bookkeeping state satisfying the representation invariant below
pub(crate) fn any_join_channels() -> JoinChannels {
    let m: [u8; 9] = kani::any();
    let jc = JoinChannels {
        max_retries: kani::any(),
        num_retries: kani::any(),
        preferred_subband: any_subband(),
        available_channels: AvailableChannels { data: ChannelMask::from(m), previous: kani::any() },
        previous_channel: kani::any(),
    };
    kani::assume(inv(&jc));
    jc
}

/// I-fix (join part): channel numbers are < 72, counters cannot overflow in one step
pub(crate) fn inv(jc: &JoinChannels) -> bool {
    jc.previous_channel < 72
        && match jc.available_channels.previous { Some(p) => p < 72, None => true }
        && jc.num_retries < usize::MAX
}

pub(crate) fn same(a: &JoinChannels, b: &JoinChannels) -> bool {
    let mut eq = a.max_retries == b.max_retries
        && a.num_retries == b.num_retries
        && a.preferred_subband == b.preferred_subband
        && a.previous_channel == b.previous_channel
        && a.available_channels.previous == b.available_channels.previous;
    macro_rules! bank { ($i:expr) => { if a.available_channels.data.get_index($i) != b.available_channels.data.get_index($i) { eq = false; } }; }
    bank!(0); bank!(1); bank!(2); bank!(3); bank!(4); bank!(5); bank!(6); bank!(7); bank!(8);
    eq
}
