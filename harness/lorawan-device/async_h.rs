//@file anchor=lorawan-device/src/async_device/mod.rs cfg=feature="region-eu868"
// C06-H3 / C04-H7 / C07-H4 / C10-H4: the async front-end with the MAC replaced by contract
// stubs (ghost counter), a radio that fails at a symbolic call position, and an immediate timer.
// (infrastructure: async_common.rs)
use super::*;
use super::verif_kani_lorawan_device_async_common::*;

//@h id=async_send_faults props=C06,C04,C05,C10 tier=quick build=dev-eu868-noc cost=150 timeout=1800
//@bounds one Device::send on a joined Class A device from an arbitrary uplink counter (all 2^32 values), a radio fault at an arbitrary call position (tx, low_power, setup_rx x2, rx_single x2, or none), arbitrary receive outcomes (timeout / any frame the MAC accepts or rejects, up to the repeated-NoUpdate bound of the unwinding), arbitrary lead time <= 1000 ms and TX timestamps < 2^31
//@encodes async_device::Device::{send, rx_downlink, rx_listen, between_windows, window_complete, handle_mac_response}, From<mac::Response> for SendResponse
//@assumes Mac::{send, handle_rx, rx2_complete, get_rx_delay, get_fcnt_up} replaced by contract stubs whose contracts are the facts proved by the MAC-level harnesses; built without the class-c feature (futures::select is outside the claim); timers are immediate
//@out Class C listening between windows
#[kani::proof]
#[kani::stub(Mac::send, stub_send)]
#[kani::stub(Mac::handle_rx, stub_handle_rx)]
#[kani::stub(Mac::rx2_complete, stub_rx2_complete)]
#[kani::stub(Mac::get_rx_delay, stub_get_rx_delay)]
#[kani::stub(Mac::get_fcnt_up, stub_get_fcnt_up)]
#[kani::unwind(6)]
fn async_send_faults() {
    crate::mac::verif_kani_lorawan_device_mac_common::vinit();
    let start: u32 = kani::any();
    unsafe {
        G_FCNT.v = start;
        G_BUILT.v = 0;
        G_RX_CALLS.v = 0;
    }
    let radio = MRadio { calls: 0, fail_at: kani::any(), tx_calls: 0, tx_ok: 0, always_rx: false };
    let mut dev: Device<MRadio, MTimer, NoRng, 256, 1> =
        Device::new(region::Configuration::new(region::Region::EU868), radio, MTimer, NoRng);
    let payload = [0u8; 4];
    let r = block_on(dev.send(&payload, 1, kani::any()));
    let handed = dev.radio.tx_calls > 0;
    unsafe {
        crate::vcheck!(G_BUILT.v == 1, "C06: one frame per send");
        if handed {
            let expired = matches!(r, Ok(SendResponse::SessionExpired));
            crate::vcheck!(G_FCNT.v > start || (start == u32::MAX && expired),
                "C06: a frame was handed to the radio but FCntUp was not advanced (nor session expiry reported) when send() returned: the next uplink reuses the counter");
        } else {
            crate::vcheck!(G_FCNT.v == start, "C06: no counter is consumed when nothing was handed to the radio");
        }
        crate::vcheck!(G_FCNT.v <= start.saturating_add(1), "C06: one send consumes at most one counter value");
        kani::cover!(r.is_ok() && dev.radio.fail_at > 8, "fault-free send completes");
        kani::cover!(r.is_err() && dev.radio.tx_ok == 1, "radio fault after a successful transmission");
    }
}

// ---- C10-H4: window timing and window parameters of the async front-end -----------------------------
static mut T_LOG: Uq<([u64; 4], usize)> = Uq { magic: 0x6C7276007A110001, v: ([0; 4], 0) };
static mut W_LOG: Uq<([u32; 4], usize)> = Uq { magic: 0x6C7276007A110002, v: ([0; 4], 0) };
static mut W_EXP: Uq<(u32, u32, u32, u32)> = Uq { magic: 0x6C7276007A110003, v: (0, 0, 0, 0) }; // rx1 f, rx2 f, delay, tx ms

struct TRadio {
    lead: u32,
    buffer: u32,
}
impl radio::PhyRxTx for TRadio {
    type PhyError = ();
    const MAX_RADIO_POWER: u8 = 20;
    async fn tx(&mut self, _config: radio::TxConfig, _buf: &[u8]) -> Result<u32, ()> {
        Ok(unsafe { W_EXP.v.3 })
    }
    async fn setup_rx(&mut self, config: radio::RxConfig) -> Result<(), ()> {
        unsafe {
            let n = W_LOG.v.1;
            if n < 4 {
                W_LOG.v.0[n] = config.rf.frequency;
            }
            W_LOG.v.1 = n + 1;
            if let radio::RxMode::Single { ms } = config.mode {
                crate::vcheck!(ms == self.buffer, "C10: the window is opened for the board's declared buffer time");
            } else {
                crate::vcheck!(false, "C10: Class A windows are single-shot");
            }
        }
        Ok(())
    }
    async fn rx_continuous(&mut self, _rx_buf: &mut [u8]) -> Result<(usize, radio::RxQuality), ()> {
        Err(())
    }
    async fn rx_single(&mut self, _buf: &mut [u8]) -> Result<radio::RxStatus, ()> {
        Ok(radio::RxStatus::RxTimeout)
    }
    async fn low_power(&mut self) -> Result<(), ()> {
        Ok(())
    }
}
impl Timings for TRadio {
    fn get_rx_window_lead_time_ms(&self) -> u32 {
        self.lead
    }
    fn get_rx_window_buffer(&self) -> u32 {
        self.buffer
    }
}
struct TTimer;
impl radio::Timer for TTimer {
    fn reset(&mut self) {}
    async fn at(&mut self, millis: u64) {
        unsafe {
            let n = T_LOG.v.1;
            if n < 4 {
                T_LOG.v.0[n] = millis;
            }
            T_LOG.v.1 = n + 1;
        }
    }
    async fn delay_ms(&mut self, _millis: u64) {}
}
fn stub_send_t<RNG: RngCore, const N: usize>(
    _m: &mut Mac,
    _rng: &mut RNG,
    _buf: &mut RadioBuffer<N>,
    _d: &SendData<'_>,
) -> mac::Result<(radio::TxConfig, mac::RxWindows, mac::FcntUp)> {
    let (mut w1, mut w2) = (any_rf(), any_rf());
    unsafe {
        w1.frequency = W_EXP.v.0;
        w2.frequency = W_EXP.v.1;
    }
    Ok((radio::TxConfig { pw: kani::any(), rf: any_rf() }, mac::RxWindows { rx1: w1, rx2: w2 }, 7))
}
fn stub_get_rx_delay_t(_m: &Mac, _f: &Frame, w: &Window) -> u32 {
    let d = unsafe { W_EXP.v.2 };
    match w {
        Window::_1 => d,
        Window::_2 => d + 1000,
    }
}

//@h id=async_rx_window_timing props=C10 tier=quick build=dev-eu868-noc cost=120 timeout=1800
//@bounds one fault-free Class A Device::send whose two windows time out: any negotiated RX1 delay 1..=15 s, any TX timestamp < 2^31 ms, any board lead time <= the RX1 delay and buffer time: the timer is armed at (delay + TX end - lead) for RX1 and one second later for RX2, the radio is configured with the RX1 then the RX2 parameters that Mac::send bound to this uplink, each window single-shot for the board's buffer time
//@encodes async_device::Device::send, rx_downlink, between_windows (Class A), RxWindows::rx_config
//@assumes Mac::{send, rx2_complete, get_rx_delay} replaced by contract stubs (window parameters and delays are the subject of rx_windows_* / macs_*_rxtiming); built without class-c
#[kani::proof]
#[kani::stub(Mac::send, stub_send_t)]
#[kani::stub(Mac::rx2_complete, stub_rx2_complete)]
#[kani::stub(Mac::get_rx_delay, stub_get_rx_delay_t)]
#[kani::unwind(6)]
fn async_rx_window_timing() {
    crate::mac::verif_kani_lorawan_device_mac_common::vinit();
    let (f1, f2, d, ms): (u32, u32, u32, u32) = (kani::any(), kani::any(), kani::any(), kani::any());
    kani::assume(d >= 1000 && d <= 15000 && ms < 0x7FFF_0000 && f1 != f2);
    let lead: u32 = kani::any();
    kani::assume(lead <= d);
    unsafe {
        G_FCNT.v = 7;
        W_EXP.v = (f1, f2, d, ms);
        T_LOG.v = ([0; 4], 0);
        W_LOG.v = ([0; 4], 0);
    }
    let radio = TRadio { lead, buffer: kani::any() };
    let mut dev: Device<TRadio, TTimer, NoRng, 256, 1> =
        Device::new(region::Configuration::new(region::Region::EU868), radio, TTimer, NoRng);
    let payload = [0u8; 4];
    let r = block_on(dev.send(&payload, 1, false));
    crate::vcheck!(r.is_ok(), "C10: a fault-free send whose windows time out completes");
    unsafe {
        crate::vcheck!(T_LOG.v.1 == 2 && W_LOG.v.1 == 2, "C10: exactly two windows are opened after an unanswered uplink");
        crate::vcheck!(T_LOG.v.0[0] == (d as u64) + (ms as u64) - (lead as u64), "C10: RX1 opens at the negotiated delay after the end of the transmission, less the board's lead time");
        crate::vcheck!(T_LOG.v.0[1] == (d as u64) + 1000 + (ms as u64) - (lead as u64), "C10: RX2 opens one second after RX1");
        crate::vcheck!(W_LOG.v.0[0] == f1 && W_LOG.v.0[1] == f2, "C10: RX1 then RX2 use the parameters bound to this uplink");
        kani::cover!(r.is_ok() && T_LOG.v.1 == 2 && lead > 0 && d == 5000, "send completed with both windows opened");
    }
}

// ---- C11 / C10 / C04-H7: the async front-end's join procedure -------------------------------------
static mut J_STATE: Uq<u8> = Uq { magic: 0x6C7276007A110011, v: 0 }; // ghost MAC state: 0 unjoined, 1 joining (Otaa), 2 joined
static mut J_NOUPDATE: Uq<u32> = Uq { magic: 0x6C7276007A110012, v: 0 };

struct JRadio {
    lead: u32,
    calls: usize,
    fail_at: usize,
    tx_calls: usize,
}
impl JRadio {
    fn step(&mut self) -> Result<(), ()> {
        let k = self.calls;
        self.calls += 1;
        if k == self.fail_at { Err(()) } else { Ok(()) }
    }
}
impl radio::PhyRxTx for JRadio {
    type PhyError = ();
    const MAX_RADIO_POWER: u8 = 20;
    async fn tx(&mut self, _config: radio::TxConfig, _buf: &[u8]) -> Result<u32, ()> {
        self.tx_calls += 1;
        self.step()?;
        Ok(unsafe { W_EXP.v.3 })
    }
    async fn setup_rx(&mut self, config: radio::RxConfig) -> Result<(), ()> {
        unsafe {
            let n = W_LOG.v.1;
            if n < 4 {
                W_LOG.v.0[n] = config.rf.frequency;
            }
            W_LOG.v.1 = n + 1;
        }
        self.step()
    }
    async fn rx_continuous(&mut self, _rx_buf: &mut [u8]) -> Result<(usize, radio::RxQuality), ()> {
        Err(())
    }
    async fn rx_single(&mut self, _buf: &mut [u8]) -> Result<radio::RxStatus, ()> {
        self.step()?;
        if kani::any() {
            let n: usize = kani::any();
            kani::assume(n <= 255);
            Ok(radio::RxStatus::Rx(n, radio::RxQuality::new(kani::any(), kani::any())))
        } else {
            Ok(radio::RxStatus::RxTimeout)
        }
    }
    async fn low_power(&mut self) -> Result<(), ()> {
        self.step()
    }
}
impl Timings for JRadio {
    fn get_rx_window_lead_time_ms(&self) -> u32 {
        self.lead
    }
}
/// contract of Mac::join_otaa (decided by join_request_exact / tx_join_legal_*): the device is
/// joining from now on; the windows are bound to the request
pub(crate) fn stub_join_otaa<RNG: RngCore, const N: usize>(
    _m: &mut Mac,
    _rng: &mut RNG,
    _c: NetworkCredentials,
    _buf: &mut RadioBuffer<N>,
) -> (radio::TxConfig, mac::RxWindows, u16) {
    let (mut w1, mut w2) = (any_rf(), any_rf());
    unsafe {
        J_STATE.v = 1;
        w1.frequency = W_EXP.v.0;
        w2.frequency = W_EXP.v.1;
    }
    (radio::TxConfig { pw: kani::any(), rf: any_rf() }, mac::RxWindows { rx1: w1, rx2: w2 }, kani::any())
}
/// contract of Mac::handle_rx while joining (decided by join_accept_*): a valid JoinAccept joins
/// the device, any other frame changes nothing
pub(crate) fn stub_handle_rx_join<const N: usize, const D: usize>(
    _m: &mut Mac,
    _buf: &mut RadioBuffer<N>,
    _dl: &mut Vec<Downlink, D>,
    _snr: i8,
    _rf: &RfConfig,
) -> mac::Response {
    unsafe {
        if J_STATE.v == 1 && kani::any() {
            J_STATE.v = 2;
            mac::Response::JoinSuccess
        } else {
            J_NOUPDATE.v += 1;
            mac::Response::NoUpdate
        }
    }
}
/// contract of Mac::rx2_complete while joining (Otaa::rx2_complete)
pub(crate) fn stub_rx2_complete_join(_m: &mut Mac) -> mac::Response {
    mac::Response::NoJoinAccept
}
pub(crate) fn any_join_mode() -> JoinMode {
    JoinMode::OTAA {
        deveui: crate::DevEui::from(kani::any::<[u8; 8]>()),
        appeui: crate::AppEui::from(kani::any::<[u8; 8]>()),
        appkey: crate::AppKey::from(kani::any::<[u8; 16]>()),
    }
}

//@h id=async_join props=C11,C10,C07 tier=quick build=dev-eu868-noc cost=250 timeout=1800
//@bounds one Device::join(OTAA) with arbitrary credentials, any TX timestamp < 2^31 ms, any board lead time <= 1000 ms, each window timing out or receiving a frame that is a valid JoinAccept or not, a radio fault at an arbitrary call or none: joined iff the MAC saw a valid JoinAccept, 'no join accept' iff both windows closed without one, a frame that is not a JoinAccept never ends the attempt; RX1 at 5 s and RX2 at 6 s after the end of the transmission less the lead time (the real Mac::get_rx_delay), on the windows bound to the request
//@encodes async_device::Device::{join, rx_downlink, rx_listen, between_windows, window_complete, handle_mac_response}, Mac::get_rx_delay, From<mac::Response> for JoinResponse
//@assumes Mac::{join_otaa, handle_rx, rx2_complete} replaced by contract stubs (facts decided by join_request_exact, join_accept_*); built without class-c (Class C: async_join_class_c)
#[kani::proof]
#[kani::stub(Mac::join_otaa, stub_join_otaa)]
#[kani::stub(Mac::handle_rx, stub_handle_rx_join)]
#[kani::stub(Mac::rx2_complete, stub_rx2_complete_join)]
#[kani::unwind(6)]
fn async_join() {
    crate::mac::verif_kani_lorawan_device_mac_common::vinit();
    let (f1, f2, ms): (u32, u32, u32) = (kani::any(), kani::any(), kani::any());
    kani::assume(ms < 0x7FFF_0000 && f1 != f2);
    let lead: u32 = kani::any();
    kani::assume(lead <= 1000);
    unsafe {
        J_STATE.v = 0;
        J_NOUPDATE.v = 0;
        W_EXP.v = (f1, f2, 0, ms);
        T_LOG.v = ([0; 4], 0);
        W_LOG.v = ([0; 4], 0);
    }
    let radio = JRadio { lead, calls: 0, fail_at: kani::any(), tx_calls: 0 };
    let mut dev: Device<JRadio, TTimer, NoRng, 256, 1> =
        Device::new(region::Configuration::new(region::Region::EU868), radio, TTimer, NoRng);
    let mode = any_join_mode();
    let r = block_on(dev.join(&mode));
    let faulted = dev.radio.fail_at < dev.radio.calls;
    unsafe {
        crate::vcheck!(dev.radio.tx_calls == 1, "C11: a join attempt transmits one JoinRequest");
        match &r {
            Ok(JoinResponse::JoinSuccess) => crate::vcheck!(J_STATE.v == 2, "C11: joined only upon a valid JoinAccept"),
            Ok(JoinResponse::NoJoinAccept) => {
                crate::vcheck!(J_STATE.v == 1, "C11: without a valid JoinAccept the device remains unjoined");
                crate::vcheck!(T_LOG.v.1 == 2 && W_LOG.v.1 == 2, "C11: 'no join accept' only after both windows were opened");
            }
            Err(_) => crate::vcheck!(faulted, "C07: only a radio error ends a join attempt with an error: a frame that is not a JoinAccept has no effect"),
        }
        if J_STATE.v == 2 {
            crate::vcheck!(faulted || matches!(r, Ok(JoinResponse::JoinSuccess)), "C11: a valid JoinAccept is reported as join success");
        }
        if T_LOG.v.1 >= 1 {
            crate::vcheck!(T_LOG.v.0[0] == 5000 + (ms as u64) - (lead as u64), "C10: the join RX1 window opens 5 s after the end of the transmission, less the board's lead time");
            crate::vcheck!(W_LOG.v.1 == 0 || W_LOG.v.0[0] == f1, "C10: RX1 uses the parameters bound to the JoinRequest");
        }
        if T_LOG.v.1 >= 2 {
            crate::vcheck!(T_LOG.v.0[1] == 6000 + (ms as u64) - (lead as u64), "C10: the join RX2 window opens 6 s after the end of the transmission, less the board's lead time");
            crate::vcheck!(W_LOG.v.1 < 2 || W_LOG.v.0[1] == f2, "C10: RX2 uses the parameters bound to the JoinRequest");
        }
        kani::cover!(matches!(r, Ok(JoinResponse::JoinSuccess)) && T_LOG.v.1 == 2 && J_NOUPDATE.v == 1, "foreign frame in RX1, JoinAccept in RX2");
        kani::cover!(matches!(r, Ok(JoinResponse::NoJoinAccept)), "no join accept");
    }
}

//@h id=async_set_adr props=C12,C20 tier=quick build=dev-eu868-noc cost=20 timeout=900
//@bounds async_device::Device::{new_with_session, set_adr, get_adr, get_session, set_datarate, get_datarate} with and without a stored session (arbitrary session): the stored session is installed unchanged, disabling ADR restarts the ADR acknowledgement count and changes nothing else, enabling it changes only the flag
//@encodes async_device::Device::{new_with_session, set_adr, get_adr, get_session, set_datarate, get_datarate}
#[kani::proof]
#[kani::unwind(20)]
fn async_set_adr() {
    use crate::mac::verif_kani_lorawan_device_mac_common::{any_session_pub as any_session, session_same_pub as session_same};
    crate::mac::verif_kani_lorawan_device_mac_common::vinit();
    let with_session: bool = kani::any();
    let s = any_session(&[0x08]);
    let mut want = s.clone();
    let radio = MRadio { calls: 0, fail_at: usize::MAX, tx_calls: 0, tx_ok: 0, always_rx: false };
    let mut dev: Device<MRadio, MTimer, NoRng, 256, 1> = Device::new_with_session(
        region::Configuration::new(region::Region::EU868), radio, MTimer, NoRng, if with_session { Some(s) } else { None });
    match dev.get_session() {
        Some(got) => crate::vcheck!(with_session && session_same(got, &want), "C20: a device created from a stored session holds exactly that session"),
        None => crate::vcheck!(!with_session, "C20: the stored session is installed"),
    }
    let en: bool = kani::any();
    dev.set_adr(en);
    crate::vcheck!(dev.get_adr() == en, "C12: ADR is enabled exactly when the application enabled it");
    if !en {
        want.adr_ack_cnt = 0;
    }
    match dev.get_session() {
        Some(got) => crate::vcheck!(with_session && session_same(got, &want), "C12: disabling ADR restarts the ADR acknowledgement count; nothing else in the session changes"),
        None => crate::vcheck!(!with_session, "C20: the session is kept"),
    }
    let dr = crate::mac::verif_kani_lorawan_device_mac_common::any_dr();
    dev.set_datarate(dr);
    crate::vcheck!(dev.get_datarate() == dr, "C12: the data rate the application sets is the one in force");
    kani::cover!(with_session && !en, "ADR disabled on a restored device");
}
