//@file anchor=lorawan-device/src/async_device/mod.rs cfg=feature="region-eu868"
// C06-H3 / C04-H7 / C07-H4 / C10-H4: the async front-end with the MAC replaced by contract
// stubs (ghost counter), a radio that fails at a symbolic call position, and an immediate timer.
use super::*;
use core::future::Future;
use core::pin::pin;
use core::task::{Context, Poll, Waker};

/// Every harness static carries a unique tag: Kani resolves a *constant* whose bytes equal a
/// static's initial bytes to that static (rustc interns allocations by content), so writing to a
/// `static mut FLAG: bool = false` silently changed constants such as `DR::_0` in the code under
/// test (found on macs_r0_linkadr2, see DESIGN 9.4).  Unique initial content rules this out.
#[repr(C)]
pub(crate) struct Uq<T> {
    pub magic: u64,
    pub v: T,
}

// ---- ghost state of the MAC contract (DESIGN 2.4: exactly the facts proved by the MAC harnesses)
static mut G_FCNT: Uq<u32> = Uq { magic: 0x6C727600B8A9E6BE, v: 0 }; // the session's FCntUp
static mut G_BUILT: Uq<u32> = Uq { magic: 0x6C72760095C36D52, v: 0 }; // number of frames built by Mac::send
static mut G_BUILT_FCNT: Uq<u32> = Uq { magic: 0x6C727600A67E892A, v: 0 }; // counter the last frame was built with
static mut G_RX_CALLS: Uq<u32> = Uq { magic: 0x6C727600B81D504B, v: 0 };
static mut G_EXPIRED_REPORTED: Uq<bool> = Uq { magic: 0x6C7276000ED10A21, v: false };

fn any_rf() -> RfConfig {
    RfConfig {
        frequency: kani::any(),
        bb: lora_modulation::BaseBandModulationParams::new(
            lora_modulation::SpreadingFactor::_7, lora_modulation::Bandwidth::_125KHz, lora_modulation::CodingRate::_4_5),
        max_payload_len: kani::any(),
    }
}

/// contract of Mac::send for a joined device (proved by prepare_* / tx_* harnesses): the frame is
/// built with the current counter, the counter is not consumed
fn stub_send<RNG: RngCore, const N: usize>(
    _m: &mut Mac,
    _rng: &mut RNG,
    _buf: &mut RadioBuffer<N>,
    _d: &SendData<'_>,
) -> mac::Result<(radio::TxConfig, mac::RxWindows, mac::FcntUp)> {
    unsafe {
        G_BUILT.v += 1;
        G_BUILT_FCNT.v = G_FCNT.v;
        Ok((radio::TxConfig { pw: kani::any(), rf: any_rf() }, mac::RxWindows { rx1: any_rf(), rx2: any_rf() }, G_FCNT.v))
    }
}
/// contract of Mac::handle_rx in the Joined state (proved by rx_* harnesses): either nothing
/// changes (NoUpdate), or the frame is accepted and the counter advances by one, or the counter
/// space is exhausted and SessionExpired is reported without wrapping
fn stub_handle_rx<const N: usize, const D: usize>(
    _m: &mut Mac,
    _buf: &mut RadioBuffer<N>,
    _dl: &mut Vec<Downlink, D>,
    _snr: i8,
    _rf: &RfConfig,
) -> mac::Response {
    unsafe {
        G_RX_CALLS.v += 1;
        if kani::any() {
            mac::Response::NoUpdate
        } else if G_FCNT.v == u32::MAX {
            mac::Response::SessionExpired
        } else {
            G_FCNT.v += 1;
            mac::Response::DownlinkReceived(kani::any())
        }
    }
}
/// contract of Mac::rx2_complete in the Joined state (proved by rx2_complete_step_*)
fn stub_rx2_complete(_m: &mut Mac) -> mac::Response {
    unsafe {
        if G_FCNT.v == u32::MAX {
            mac::Response::SessionExpired
        } else {
            G_FCNT.v += 1;
            if kani::any() { mac::Response::NoAck } else { mac::Response::RxComplete }
        }
    }
}
fn stub_get_rx_delay(_m: &Mac, _f: &Frame, w: &Window) -> u32 {
    let d: u32 = kani::any();
    kani::assume(d >= 1000 && d <= 15000);
    match w {
        Window::_1 => d,
        Window::_2 => d + 1000,
    }
}
fn stub_get_fcnt_up(_m: &Mac) -> Option<mac::FcntUp> {
    unsafe { Some(G_FCNT.v) }
}

// ---- radio / timer models ------------------------------------------------------------------------
struct MRadio {
    calls: usize,
    fail_at: usize,
    tx_calls: usize,
    tx_ok: usize,
}
impl MRadio {
    fn step(&mut self) -> Result<(), ()> {
        let k = self.calls;
        self.calls += 1;
        if k == self.fail_at { Err(()) } else { Ok(()) }
    }
}
impl radio::PhyRxTx for MRadio {
    type PhyError = ();
    const MAX_RADIO_POWER: u8 = 20;
    async fn tx(&mut self, _config: radio::TxConfig, _buf: &[u8]) -> Result<u32, ()> {
        self.tx_calls += 1;
        self.step()?;
        self.tx_ok += 1;
        let ms: u32 = kani::any();
        kani::assume(ms < 0x7FFF_0000);
        Ok(ms)
    }
    async fn setup_rx(&mut self, _config: radio::RxConfig) -> Result<(), ()> {
        self.step()
    }
    async fn rx_continuous(&mut self, _rx_buf: &mut [u8]) -> Result<(usize, radio::RxQuality), ()> {
        self.step()?;
        let n: usize = kani::any();
        kani::assume(n <= 255);
        Ok((n, radio::RxQuality::new(kani::any(), kani::any())))
    }
    async fn rx_single(&mut self, _buf: &mut [u8]) -> Result<radio::RxStatus, ()> {
        self.step()?;
        if kani::any() {
            let n: usize = kani::any();
            kani::assume(n <= 255);
            Ok(radio::RxStatus::Rx(n, radio::RxQuality::new(kani::any(), kani::any())))
        } else {
            Ok(radio::RxStatus::RxTimeout)
        }
    }
    async fn low_power(&mut self) -> Result<(), ()> {
        self.step()
    }
}
impl Timings for MRadio {
    fn get_rx_window_lead_time_ms(&self) -> u32 {
        let l: u32 = kani::any();
        kani::assume(l <= 1000);
        l
    }
}
struct MTimer;
impl radio::Timer for MTimer {
    fn reset(&mut self) {}
    async fn at(&mut self, _millis: u64) {}
    async fn delay_ms(&mut self, _millis: u64) {}
}
struct NoRng;
impl RngCore for NoRng {
    fn next_u32(&mut self) -> u32 { kani::any() }
    fn next_u64(&mut self) -> u64 { kani::any() }
    fn fill_bytes(&mut self, _d: &mut [u8]) {}
    fn try_fill_bytes(&mut self, _d: &mut [u8]) -> core::result::Result<(), rand_core::Error> { Ok(()) }
}

fn block_on<F: Future>(f: F) -> F::Output {
    let mut f = pin!(f);
    let w = Waker::noop();
    let mut cx = Context::from_waker(&w);
    match f.as_mut().poll(&mut cx) {
        Poll::Ready(v) => v,
        Poll::Pending => {
            kani::assume(false);
            unreachable!()
        }
    }
}

//@h id=async_send_faults props=C06,C04 tier=quick build=dev-eu868-noc cost=150 timeout=1800
//@bounds one Device::send on a joined Class A device from an arbitrary uplink counter (all 2^32 values), a radio fault at an arbitrary call position (tx, low_power, setup_rx x2, rx_single x2, or none), arbitrary receive outcomes (timeout / any frame the MAC accepts or rejects, up to the repeated-NoUpdate bound of the unwinding), arbitrary lead time <= 1000 ms and TX timestamps < 2^31
//@encodes async_device::Device::{send, rx_downlink, rx_listen, between_windows, window_complete, handle_mac_response}, From<mac::Response> for SendResponse
//@assumes Mac::{send, handle_rx, rx2_complete, get_rx_delay, get_fcnt_up} replaced by contract stubs whose contracts are the facts proved by the MAC-level harnesses; built without the class-c feature (futures::select is outside the claim); timers are immediate
//@out Class C listening between windows
#[kani::proof]
#[kani::stub(Mac::send, stub_send)]
#[kani::stub(Mac::handle_rx, stub_handle_rx)]
#[kani::stub(Mac::rx2_complete, stub_rx2_complete)]
#[kani::stub(Mac::get_rx_delay, stub_get_rx_delay)]
#[kani::stub(Mac::get_fcnt_up, stub_get_fcnt_up)]
#[kani::unwind(6)]
fn async_send_faults() {
    crate::mac::verif_kani_lorawan_device_mac_common::vinit();
    let start: u32 = kani::any();
    unsafe {
        G_FCNT.v = start;
        G_BUILT.v = 0;
        G_RX_CALLS.v = 0;
    }
    let radio = MRadio { calls: 0, fail_at: kani::any(), tx_calls: 0, tx_ok: 0 };
    let mut dev: Device<MRadio, MTimer, NoRng, 256, 1> =
        Device::new(region::Configuration::new(region::Region::EU868), radio, MTimer, NoRng);
    let payload = [0u8; 4];
    let r = block_on(dev.send(&payload, 1, kani::any()));
    let handed = dev.radio.tx_calls > 0;
    unsafe {
        crate::vcheck!(G_BUILT.v == 1, "C06: one frame per send");
        if handed {
            let expired = matches!(r, Ok(SendResponse::SessionExpired));
            crate::vcheck!(G_FCNT.v > start || (start == u32::MAX && expired),
                "C06: a frame was handed to the radio but FCntUp was not advanced (nor session expiry reported) when send() returned: the next uplink reuses the counter");
        } else {
            crate::vcheck!(G_FCNT.v == start, "C06: no counter is consumed when nothing was handed to the radio");
        }
        crate::vcheck!(G_FCNT.v <= start.saturating_add(1), "C06: one send consumes at most one counter value");
        kani::cover!(r.is_ok() && dev.radio.fail_at > 8, "fault-free send completes");
        kani::cover!(r.is_err() && dev.radio.tx_ok == 1, "radio fault after a successful transmission");
    }
}

// ---- C10-H4: window timing and window parameters of the async front-end -----------------------------
static mut T_LOG: Uq<([u64; 4], usize)> = Uq { magic: 0x6C7276007A110001, v: ([0; 4], 0) };
static mut W_LOG: Uq<([u32; 4], usize)> = Uq { magic: 0x6C7276007A110002, v: ([0; 4], 0) };
static mut W_EXP: Uq<(u32, u32, u32, u32)> = Uq { magic: 0x6C7276007A110003, v: (0, 0, 0, 0) }; // rx1 f, rx2 f, delay, tx ms

struct TRadio {
    lead: u32,
    buffer: u32,
}
impl radio::PhyRxTx for TRadio {
    type PhyError = ();
    const MAX_RADIO_POWER: u8 = 20;
    async fn tx(&mut self, _config: radio::TxConfig, _buf: &[u8]) -> Result<u32, ()> {
        Ok(unsafe { W_EXP.v.3 })
    }
    async fn setup_rx(&mut self, config: radio::RxConfig) -> Result<(), ()> {
        unsafe {
            let n = W_LOG.v.1;
            if n < 4 {
                W_LOG.v.0[n] = config.rf.frequency;
            }
            W_LOG.v.1 = n + 1;
            if let radio::RxMode::Single { ms } = config.mode {
                crate::vcheck!(ms == self.buffer, "C10: the window is opened for the board's declared buffer time");
            } else {
                crate::vcheck!(false, "C10: Class A windows are single-shot");
            }
        }
        Ok(())
    }
    async fn rx_continuous(&mut self, _rx_buf: &mut [u8]) -> Result<(usize, radio::RxQuality), ()> {
        Err(())
    }
    async fn rx_single(&mut self, _buf: &mut [u8]) -> Result<radio::RxStatus, ()> {
        Ok(radio::RxStatus::RxTimeout)
    }
    async fn low_power(&mut self) -> Result<(), ()> {
        Ok(())
    }
}
impl Timings for TRadio {
    fn get_rx_window_lead_time_ms(&self) -> u32 {
        self.lead
    }
    fn get_rx_window_buffer(&self) -> u32 {
        self.buffer
    }
}
struct TTimer;
impl radio::Timer for TTimer {
    fn reset(&mut self) {}
    async fn at(&mut self, millis: u64) {
        unsafe {
            let n = T_LOG.v.1;
            if n < 4 {
                T_LOG.v.0[n] = millis;
            }
            T_LOG.v.1 = n + 1;
        }
    }
    async fn delay_ms(&mut self, _millis: u64) {}
}
fn stub_send_t<RNG: RngCore, const N: usize>(
    _m: &mut Mac,
    _rng: &mut RNG,
    _buf: &mut RadioBuffer<N>,
    _d: &SendData<'_>,
) -> mac::Result<(radio::TxConfig, mac::RxWindows, mac::FcntUp)> {
    let (mut w1, mut w2) = (any_rf(), any_rf());
    unsafe {
        w1.frequency = W_EXP.v.0;
        w2.frequency = W_EXP.v.1;
    }
    Ok((radio::TxConfig { pw: kani::any(), rf: any_rf() }, mac::RxWindows { rx1: w1, rx2: w2 }, 7))
}
fn stub_get_rx_delay_t(_m: &Mac, _f: &Frame, w: &Window) -> u32 {
    let d = unsafe { W_EXP.v.2 };
    match w {
        Window::_1 => d,
        Window::_2 => d + 1000,
    }
}

//@h id=async_rx_window_timing props=C10 tier=quick build=dev-eu868-noc cost=120 timeout=1800
//@bounds one fault-free Class A Device::send whose two windows time out: any negotiated RX1 delay 1..=15 s, any TX timestamp < 2^31 ms, any board lead time <= the RX1 delay and buffer time: the timer is armed at (delay + TX end - lead) for RX1 and one second later for RX2, the radio is configured with the RX1 then the RX2 parameters that Mac::send bound to this uplink, each window single-shot for the board's buffer time
//@encodes async_device::Device::send, rx_downlink, between_windows (Class A), RxWindows::rx_config
//@assumes Mac::{send, rx2_complete, get_rx_delay} replaced by contract stubs (window parameters and delays are the subject of rx_windows_* / macs_*_rxtiming); built without class-c
#[kani::proof]
#[kani::stub(Mac::send, stub_send_t)]
#[kani::stub(Mac::rx2_complete, stub_rx2_complete)]
#[kani::stub(Mac::get_rx_delay, stub_get_rx_delay_t)]
#[kani::unwind(6)]
fn async_rx_window_timing() {
    crate::mac::verif_kani_lorawan_device_mac_common::vinit();
    let (f1, f2, d, ms): (u32, u32, u32, u32) = (kani::any(), kani::any(), kani::any(), kani::any());
    kani::assume(d >= 1000 && d <= 15000 && ms < 0x7FFF_0000 && f1 != f2);
    let lead: u32 = kani::any();
    kani::assume(lead <= d);
    unsafe {
        G_FCNT.v = 7;
        W_EXP.v = (f1, f2, d, ms);
        T_LOG.v = ([0; 4], 0);
        W_LOG.v = ([0; 4], 0);
    }
    let radio = TRadio { lead, buffer: kani::any() };
    let mut dev: Device<TRadio, TTimer, NoRng, 256, 1> =
        Device::new(region::Configuration::new(region::Region::EU868), radio, TTimer, NoRng);
    let payload = [0u8; 4];
    let r = block_on(dev.send(&payload, 1, false));
    crate::vcheck!(r.is_ok(), "C10: a fault-free send whose windows time out completes");
    unsafe {
        crate::vcheck!(T_LOG.v.1 == 2 && W_LOG.v.1 == 2, "C10: exactly two windows are opened after an unanswered uplink");
        crate::vcheck!(T_LOG.v.0[0] == (d as u64) + (ms as u64) - (lead as u64), "C10: RX1 opens at the negotiated delay after the end of the transmission, less the board's lead time");
        crate::vcheck!(T_LOG.v.0[1] == (d as u64) + 1000 + (ms as u64) - (lead as u64), "C10: RX2 opens one second after RX1");
        crate::vcheck!(W_LOG.v.0[0] == f1 && W_LOG.v.0[1] == f2, "C10: RX1 then RX2 use the parameters bound to this uplink");
        kani::cover!(r.is_ok() && T_LOG.v.1 == 2 && lead > 0 && d == 5000, "send completed with both windows opened");
    }
}
