//@file anchor=lorawan-device/src/mac/session.rs
// C05-H1: 16 -> 32 bit downlink counter reconstruction and freshness window.
use super::*;

//@h id=fcnt_window props=C05 tier=quick build=dev-eu868 cost=5 timeout=300
//@bounds all last: Option<u32> (2^32+1 values) x all 2^16 wire values; absence of any other admissible counter is shown with a universally quantified candidate
//@encodes session::next_fcnt_down
#[kani::proof]
fn fcnt_window() {
    let last: Option<u32> = kani::any();
    let wire: u16 = kani::any();
    let got = next_fcnt_down(last, wire);
    match last {
        None => assert!(got == Some(wire as u32), "C05: first downlink is taken at face value"),
        Some(l) => {
            let l = l as u64;
            match got {
                Some(n) => {
                    let n64 = n as u64;
                    assert!(n as u16 == wire, "C05: reconstructed counter must match the wire counter");
                    assert!(n64 > l, "C05: counter must advance");
                    assert!(n64 <= l + 16384, "C05: counter must stay within MAX_FCNT_GAP");
                    kani::cover!(n > 0xFFFF && (n as u16) < (l as u16), "accepted across a 16-bit roll-over");
                }
                None => {
                    // no admissible 32-bit counter exists
                    let cand: u32 = kani::any();
                    let c = cand as u64;
                    assert!(!(cand as u16 == wire && c > l && c <= l + 16384),
                        "C05: an authentic-and-fresh counter exists but the frame is dropped");
                    kani::cover!(true, "rejected");
                }
            }
        }
    }
}
