#!/bin/bash
# selftest.sh [pattern] : every repaired defect must be found again when its fix is reverted.
# For each reverse patch in selftest/mutants/ a scratch worktree of /repo is made, the patch applied,
# and the property's quick check run against it (LRV_REPO); expected: exit 1 with a VIOLATION line.
V=$(cd "$(dirname "$0")/.." && pwd)
PAT=${1:-.}
OUT=/var/tmp/selftest.log
: > $OUT
for f in $V/selftest/mutants/*.patch; do
  n=$(basename $f .patch)
  echo "$n" | grep -q -E "$PAT" || continue
  p=${n%%-*}
  wt=/tmp/lrv-selftest-$n
  git -C /repo worktree remove --force $wt > /dev/null 2>&1
  git -C /repo worktree add --detach $wt HEAD > /dev/null 2>&1
  if ! git -C $wt apply $f 2> /var/tmp/selftest-$n.err; then
    echo "$n SKIP (reverse patch does not apply to the current tree: $(head -c 120 /var/tmp/selftest-$n.err | tr '\n' ' '))" >> $OUT
    git -C /repo worktree remove --force $wt > /dev/null 2>&1
    continue
  fi
  t0=$(date +%s)
  LRV_REPO=$wt python3 $V/bin/check.py $p --tier quick --no-evidence > /var/tmp/selftest-$n.out 2>&1
  rc=$?
  t1=$(date +%s)
  echo "$n rc=$rc wall=$((t1-t0))s $(grep -c '^VIOLATION' /var/tmp/selftest-$n.out) violation line(s): $(grep '^  harness' /var/tmp/selftest-$n.out | head -2 | cut -c1-160 | tr '\n' ' ')" >> $OUT
  git -C /repo worktree remove --force $wt > /dev/null 2>&1
done
git -C /repo worktree prune
echo DONE >> $OUT
