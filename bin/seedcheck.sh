#!/bin/bash
# seedcheck.sh <seed-id> <property> <worktree> <outdir> [check args...]
# Confirms a seeded change in its scratch worktree (suite passes with it, demo fails with it and
# passes without it), runs the property's check against the worktree (LRV_REPO), and files the
# seed under /verif/seeded/<seed-id>/.
set -u
ID=$1; PROP=$2; WT=$3; OUT=$4; shift 4
export CARGO_NET_OFFLINE=true
LOG=/var/tmp/seedcheck-$ID.log
: > $LOG
cd $WT || exit 2
echo "== suite with change" >> $LOG
cargo test --workspace --offline --no-fail-fast 2>&1 | grep -E "^test result|FAILED|failed|^error" >> $LOG
echo "== demo with change (must fail)" >> $LOG
bash $OUT/demo/run.sh >> $LOG.demo1 2>&1; echo "rc=$?" >> $LOG; grep -E "^test result|panicked" $LOG.demo1 | head -5 >> $LOG
git apply -R $OUT/patch.diff || { echo "cannot revert patch" >> $LOG; exit 2; }
echo "== demo without change (must pass)" >> $LOG
bash $OUT/demo/run.sh >> $LOG.demo2 2>&1; echo "rc=$?" >> $LOG; grep -E "^test result|panicked" $LOG.demo2 | head -5 >> $LOG
git apply $OUT/patch.diff || { echo "cannot re-apply patch" >> $LOG; exit 2; }
echo "== check $PROP against the changed tree" >> $LOG
cd /verif
LRV_REPO=$WT timeout 3600 python3 bin/check.py $PROP --no-evidence "$@" > $LOG.check 2>&1; echo "check rc=$?" >> $LOG
grep -E "VIOLATION|INCONCLUSIVE|KNOWN|tier=" $LOG.check | cut -c1-400 >> $LOG
mkdir -p /verif/seeded/$ID
cp $OUT/patch.diff /verif/seeded/$ID/patch.diff
rm -rf /verif/seeded/$ID/demo; cp -r $OUT/demo /verif/seeded/$ID/demo
cp $OUT/meta.json /verif/seeded/$ID/agent_meta.json
cat $LOG
