#!/usr/bin/env python3
"""check.py <PROP> [--tier quick|thorough] [--only REGEX] [--keep] [--workers N]
   check.py <PROP> --replay <path>

Decides one property of /verif/properties.jsonl on /repo's current working tree by
symbolic execution of the real code + SAT/SMT (Kani/CBMC; extra engines see lib/engines.py).
exit 0 = held on everything explored (known findings are printed as KNOWN-FINDING lines)
exit 1 = `VIOLATION property=<id> replay=<path>` (counterexample reproduced natively)
exit 2 = inconclusive (time-out, OOM, bound too small, vacuous harness, non-reproducing cex)
"""
import os, sys, re, json, time, argparse, shutil, subprocess, threading, traceback
sys.path.insert(0, os.path.join(os.path.dirname(os.path.abspath(__file__)), "..", "lib"))
import lrv
from lrv import VERIF

TIER_TIMEOUT = {"quick": 600, "thorough": 3600}
MEM_GB = float(os.environ.get("LRV_MEM_GB", "24"))
PLAYBACK_MEM_GB = float(os.environ.get("LRV_PLAYBACK_MEM_GB", "46"))


def partition(hs, nworkers):
    """LPT partition of harnesses over workers, grouped by build (a worker = one build)."""
    by_build = {}
    for h in hs:
        by_build.setdefault(h.build, []).append(h)
    groups = []
    # one worker per build, the remaining workers one at a time to the build whose workers carry
    # the highest cost each (never more workers than harnesses)
    builds = sorted(by_build)
    cost = {b: sum(h.cost for h in by_build[b]) or 1.0 for b in builds}
    alloc = {b: 1 for b in builds}
    for _ in range(max(0, nworkers - len(builds))):
        cand = [b for b in builds if alloc[b] < len(by_build[b])]
        if not cand:
            break
        b = max(cand, key=lambda k: cost[k] / alloc[k])
        alloc[b] += 1
    for b in builds:
        bins = [[] for _ in range(alloc[b])]
        loads = [0.0] * alloc[b]
        for h in sorted(by_build[b], key=lambda h: -h.cost):
            i = loads.index(min(loads))
            bins[i].append(h)
            loads[i] += h.cost
        groups += [(b, g) for g in bins if g]
    return groups


class Worker(threading.Thread):
    def __init__(self, idx, prop, build, hs, files, tier, logdir):
        super().__init__()
        self.idx, self.prop, self.build, self.hs, self.files = idx, prop, build, hs, files
        self.tier, self.logdir = tier, logdir
        self.results, self.error, self.scratch, self.copies = {}, None, None, {}
        self.wall = 0.0

    def run(self):
        try:
            self._run()
        except lrv.Inconclusive as e:
            self.error = str(e)
        except Exception:
            self.error = traceback.format_exc()

    def _run(self):
        b = lrv.BUILDS[self.build]
        self.scratch = lrv.make_scratch("%s-w%d" % (self.prop, self.idx))
        files = lrv.files_for_build(self.files, b, pkg_dirs_for(b["package"]))
        self.copies = lrv.apply_overlay(self.scratch, files, b["swap"], b.get("edits", ()))
        ht = max([h.timeout or TIER_TIMEOUT[self.tier] for h in self.hs])
        cmd = lrv.kani_cmd(self.build, [h.fq() for h in self.hs],
                           os.path.join(self.scratch, "target"), ht)
        env = dict(lrv.ENV)
        if b.get("rustflags"):
            env["RUSTFLAGS"] = b["rustflags"]
        self.log = os.path.join(self.logdir, "w%d-%s.log" % (self.idx, self.build))
        overall = 600 + sum(h.timeout or TIER_TIMEOUT[self.tier] for h in self.hs)
        rc, self.wall = lrv.run_cmd(cmd, os.path.join(self.scratch, "src"), self.log, overall,
                                    MEM_GB, env)
        text = open(self.log, errors="replace").read()
        self.results = lrv.parse_kani_log(text)
        if not self.results and rc != 0:
            self.error = "cargo kani failed (rc=%s), see %s: %s" % (
                rc, self.log, " | ".join(text.strip().splitlines()[-6:])[:800])


def pkg_dirs_for(package):
    # overlay modules are added only to the package under verification (dependencies are compiled
    # unchanged, except for the crypto model swap)
    return {"lora-modulation": ["lora-modulation"], "lorawan": ["lorawan-encoding"],
            "lorawan-device": ["lorawan-device"], "lora-phy": ["lora-phy"]}[package]


# -------------------------------------------------------------------------------------------------
# replay (DESIGN 2.6): regenerate the counterexample as a unit test and run it natively
# -------------------------------------------------------------------------------------------------
def generate_playback(w, h, tier, sliced=False):
    """Kani's concrete playback re-runs CBMC *without* formula slicing, which costs 3-6x the time
    of the plain run and, for the lora-phy driver stack, more memory than the machine has.  With
    `sliced` the slicer is switched back on (--cbmc-args --slice-formula): cheap, but values the
    failing assertion does not depend on may be missing from the trace, so the generated test can
    be unfaithful (it then dies inside Kani's playback library and is not counted).  Either way the
    test only counts when it fails natively at the harness's own assertion on the real code."""
    if os.path.basename(h.file).startswith("c13_") and h.file.endswith("_gen.rs"):
        return synthesize_c13_replay(w, h, tier, None)
    cmd = lrv.kani_cmd(w.build, [h.fq()], os.path.join(w.scratch, "target"),
                       6 * (h.timeout or TIER_TIMEOUT[tier]),
                       ["-Z", "concrete-playback", "--concrete-playback=print"]
                       + (["--cbmc-args", "--slice-formula"] if sliced else []))
    env = dict(lrv.ENV)
    if lrv.BUILDS[w.build].get("rustflags"):
        env["RUSTFLAGS"] = lrv.BUILDS[w.build]["rustflags"]
    log = os.path.join(w.logdir, "playback-gen-%s%s.log" % (h.uid, "-sliced" if sliced else ""))
    # concrete playback runs CBMC without formula slicing (needs 2-4x the memory of the plain run);
    # it happens after the workers have finished, so it may use most of the machine
    lrv.run_cmd(cmd, os.path.join(w.scratch, "src"), log,
                600 + 6 * (h.timeout or TIER_TIMEOUT[tier]), max(MEM_GB, PLAYBACK_MEM_GB), env)
    text = open(log, errors="replace").read()
    tests = re.findall(r"```\s*\n(.*?)```", text, flags=re.S)
    # keep cover witnesses too: Kani de-duplicates tests by their concrete values, so a witness
    # that also violates an assertion is labelled as a cover only; natively, a pure cover
    # witness passes and only a real counterexample fails
    tests = [t for t in tests if "kani_concrete_playback" in t]
    # the same test (named by the hash of its values) is printed once per property it witnesses
    seen, uniq = set(), []
    for t in tests:
        m = re.search(r"fn (kani_concrete_playback_\w+)", t)
        if m and m.group(1) not in seen:
            seen.add(m.group(1))
            uniq.append(t)
    tests = uniq
    return tests, log


def synthesize_c13_replay(w, h, tier, log):
    """Kani's concrete playback runs CBMC without formula slicing; for the lora-phy driver stack
    that needs > 46 GB.  For the generated C13 harnesses the counterexample is rebuilt instead:
    the parameter values are read from the CBMC trace of the (sliced) plain run and the harness
    body is re-generated as native tests with those values on several concrete chip contents
    (lib/c13gen.replay_tests).  The tests go through the same native run as Kani's own."""
    import c13gen
    cmd = lrv.kani_cmd(w.build, [h.fq()], os.path.join(w.scratch, "target"),
                       2 * (h.timeout or TIER_TIMEOUT[tier]), ["--output-format", "old", "--cbmc-args", "--trace"])
    env = dict(lrv.ENV)
    if lrv.BUILDS[w.build].get("rustflags"):
        env["RUSTFLAGS"] = lrv.BUILDS[w.build]["rustflags"]
    tlog = os.path.join(w.logdir, "trace-%s.log" % h.uid)
    lrv.run_cmd(cmd, os.path.join(w.scratch, "src"), tlog, 600 + 2 * (h.timeout or TIER_TIMEOUT[tier]), MEM_GB, env)
    text = open(tlog, errors="replace").read()
    i = text.find("Trace for ")
    values = {}
    if i >= 0:
        for name in c13gen.param_names(h.id):
            m = re.search(r"^  %s=(\d+) \(" % re.escape(name), text[i:], flags=re.M)
            if m:
                values[name] = int(m.group(1))
    if i < 0 or len(values) != len(c13gen.param_names(h.id)):
        return [], tlog
    return c13gen.replay_tests(h.id, values), tlog


def fix_playback_text(t):
    t = re.sub(r"\bvec!\[", "std::vec![", t)
    t = re.sub(r"(?<![:\w])Vec<", "std::vec::Vec<", t)
    return t



def repair_tests(tests):
    """Sliced playback tests can lack the values of nondeterministic *arrays* (chip contents drawn
    as [u8; 64] blocks) that the failing assertion does not depend on; the playback library then
    stops at the first size mismatch.  For every generated test this builds a native search test
    that re-inserts k one-byte filler values (k = 1..=264, four fill patterns) at each position of
    the value list and runs the harness on the real code for each candidate; a candidate counts
    only if the run fails *outside* Kani's playback library, i.e. at the harness's own assertion or
    in the code under test -- the concrete counterexample is then printed in the panic message."""
    out = []
    for n, t in enumerate(tests):
        m = re.search(r"kani::concrete_playback_run\(concrete_vals,\s*([A-Za-z0-9_:]+)\)", t)
        vals = re.findall(r"^\s*(vec!\[[0-9, ]*\]),\s*$", t, flags=re.M)
        name = re.search(r"fn (kani_concrete_playback_\w+)", t)
        if not (m and name):
            continue
        body = """
#[test]
fn %s_repair() {
    use std::panic;
    use std::string::String;
    use std::sync::Mutex;
    static LAST: Mutex<Option<(String, String)>> = Mutex::new(None);
    let base: Vec<Vec<u8>> = vec![%s];
    let old = panic::take_hook();
    panic::set_hook(std::boxed::Box::new(|info| {
        let file = info.location().map(|l| String::from(l.file())).unwrap_or_default();
        let msg = if let Some(s) = info.payload().downcast_ref::<&str>() { String::from(*s) }
                  else if let Some(s) = info.payload().downcast_ref::<String>() { s.clone() } else { String::new() };
        *LAST.lock().unwrap() = Some((file, msg));
    }));
    let mut found: Option<String> = None;
    'search: for p in 0..=base.len() {
        for k in 1..=264usize {
            for fill in [0x00u8, 0xff, 0x5a, 0xa5] {
                let mut v = base.clone();
                for _ in 0..k { v.insert(p, vec![fill]); }
                *LAST.lock().unwrap() = None;
                let r = panic::catch_unwind(panic::AssertUnwindSafe(|| kani::concrete_playback_run(v, %s)));
                if r.is_err() {
                    if let Some((file, msg)) = LAST.lock().unwrap().clone() {
                        // a candidate that breaks a harness assumption is not a counterexample
                        if !file.ends_with("concrete_playback.rs") && !msg.contains("kani::assume") {
                            found = Some(std::format!("{} one-byte values 0x{:02x} re-inserted at position {}: {} ({})", k, fill, p, msg, file));
                            break 'search;
                        }
                    }
                }
            }
        }
    }
    panic::set_hook(old);
    if let Some(f) = found { panic!("REPAIRED REPLAY reproduces natively: {}", f); }
}
""" % (name.group(1), ", ".join(vals), m.group(1))
        out.append(body)
    return out

def native_playback(w, h, tests, prop):
    """Append the generated tests to the scratch copy of the harness file and run them with
    `cargo kani playback` (dev profile, then --release).  Returns (reproduced, details, path)."""
    cp = w.copies[h.file]
    names = []
    body = "\n// ---- generated by Kani concrete playback (counterexample) ----\n"
    body += "extern crate std;\n"
    for t in tests:
        t = fix_playback_text(t)
        body += t + "\n"
        names += re.findall(r"fn (kani_concrete_playback_\w+)", t)
    # (a second replay attempt for the same harness replaces the tests of the first)
    marker = "\n// ---- generated by Kani concrete playback (counterexample) ----\n"
    text = open(cp).read()
    if marker in text:
        text = text[:text.index(marker)]
    with open(cp, "w") as fh:
        fh.write(text + body)
    rdir = os.path.join(VERIF, "replays", prop)
    os.makedirs(rdir, exist_ok=True)
    rpath = os.path.join(rdir, "%s.rs" % h.uid)
    with open(rpath, "w") as fh:
        fh.write("// counterexample for property %s, harness %s (%s)\n"
                 "// replay: python3 /verif/bin/check.py %s --replay %s\n"
                 "//@replay harness=%s build=%s file=%s\n%s" % (
                     prop, h.id, os.path.relpath(h.file, VERIF), prop, rpath, h.id, w.build,
                     os.path.relpath(h.file, VERIF), body))
    # 1. the real code, as it is
    rep, out = run_playback(w.scratch, w.build, names, w.logdir, h.uid)
    if rep:
        return rep, out, rpath
    # 2. contract-stub harness: `#[kani::stub]` is not applied by the playback, so the recorded
    # values do not line up with the real functions; replay again with the harness's stubs
    # installed in the scratch copy (the composition the solver decided)
    stubs = [] if os.path.basename(h.file).startswith("c13_") else lrv.stubs_of(h)
    if not stubs:
        return rep, out, rpath
    undo, problems = lrv.inject_stubs(w.scratch, h, stubs, w.copies)
    try:
        if problems:
            out["with_stubs"] = dict(not_replayable=problems)
            return False, out, rpath
        rep2, out2 = run_playback(w.scratch, w.build, names, w.logdir, h.uid + "-stubs")
        out["with_stubs"] = out2
        return rep2, out, rpath
    finally:
        lrv.restore_files(undo)


def run_playback(scratch, build, names, logdir, tag):
    b = lrv.BUILDS[build]
    # playback builds the crate's test configuration: default features are needed by the
    # repository's own #[cfg(test)] modules (DESIGN 2.6)
    feats = []
    if b["package"] == "lorawan-device":
        # the build's own features plus the two regions the crate's #[cfg(test)] modules need
        fs = [f for f in b["features"].split(",") if f]
        for f in ["region-eu868", "region-us915"] + list(b.get("playback_features", [])):
            if f not in fs:
                fs.append(f)
        feats = ["--no-default-features", "--features", ",".join(fs)]
    elif b["package"] == "lora-phy":
        feats = b["args"]
    out = {}
    reproduced = False
    for profile in ("dev", "release"):
        cmd = ["cargo", "kani", "playback", "-Z", "concrete-playback", "-p", b["package"]] + feats
        if profile == "release" and reproduced:
            break  # reproduced in the profile Kani models: that is a violation already
        cmd += ["--lib", "--", "--test-threads", "1", "kani_concrete_playback"]
        env = dict(lrv.ENV)
        env["CARGO_TARGET_DIR"] = os.path.join(scratch, "target-playback")
        if profile == "release":
            # `cargo kani playback` has no --release: give the dev/test profile the release
            # profile's semantics (optimised, overflow wraps, debug assertions off) instead
            env["CARGO_TARGET_DIR"] = os.path.join(scratch, "target-playback-rel")
            for k in ("DEV", "TEST"):
                env["CARGO_PROFILE_%s_OPT_LEVEL" % k] = "3"
                env["CARGO_PROFILE_%s_OVERFLOW_CHECKS" % k] = "false"
                env["CARGO_PROFILE_%s_DEBUG_ASSERTIONS" % k] = "false"
        if b.get("rustflags"):
            env["RUSTFLAGS"] = b["rustflags"]
        log = os.path.join(logdir, "playback-run-%s-%s.log" % (tag, profile))
        rc, _ = lrv.run_cmd(cmd, os.path.join(scratch, "src"), log, 1800, None, env)
        text = open(log, errors="replace").read()
        ran = re.search(r"test result: (\w+)\. (\d+) passed; (\d+) failed", text)
        failed = int(ran.group(3)) if ran else 0
        msgs = re.findall(r"panicked at ([^\n]*\n[^\n]*)", text)
        # a test that fails inside Kani's playback library (recorded values left over / missing)
        # did not follow the counterexample: that is not a reproduction
        unfaithful = [m for m in msgs if "concrete_playback.rs" in m]
        failed = max(0, failed - len(unfaithful))
        if not ran:
            berr = re.findall(r"^error[^\n]*", text, flags=re.M)[:2]
            msgs = ["PLAYBACK BUILD/RUN FAILED: " + " | ".join(berr)] + msgs
        out[profile] = dict(rc=rc, failed=failed, passed=int(ran.group(2)) if ran else 0,
                            panics=[m.replace("\n", " ")[:300] for m in msgs][:4],
                            built=bool(ran))
        if failed > 0:
            reproduced = True
    return reproduced, out


def cmd_replay(prop, path):
    text = open(path).read()
    m = re.search(r"//@replay harness=(\S+) build=(\S+) file=(\S+)", text)
    if not m:
        print("not a replay file:", path)
        return 2
    hid, build, hfile = m.groups()
    files, _ = lrv.discover()
    scratch = lrv.make_scratch("replay-%s" % prop)
    try:
        b = lrv.BUILDS[build]
        fs = lrv.files_for_build(files, b, pkg_dirs_for(b["package"]))
        copies = lrv.apply_overlay(scratch, fs, b["swap"], b.get("edits", ()))
        cp = copies[os.path.join(VERIF, hfile)]
        body = text.split("\n", 3)[3]
        with open(cp, "a") as fh:
            fh.write(body)
        names = re.findall(r"fn (kani_concrete_playback_\w+)", body)
        logdir = os.path.join(scratch, "logs")
        os.makedirs(logdir)
        rep, out = run_playback(scratch, build, names, logdir, hid)
        if not rep:
            # contract-stub harness: second stage with the stubs installed (see native_playback)
            _, hs_all = lrv.discover()
            h = next((x for x in hs_all if x.id == hid and x.file == os.path.join(VERIF, hfile)), None)
            stubs = lrv.stubs_of(h) if h and not os.path.basename(hfile).startswith("c13_") else []
            if stubs:
                undo, problems = lrv.inject_stubs(scratch, h, stubs, copies)
                try:
                    if problems:
                        out["with_stubs"] = dict(not_replayable=problems)
                    else:
                        rep, out2 = run_playback(scratch, build, names, logdir, hid + "-stubs")
                        out["with_stubs"] = out2
                finally:
                    lrv.restore_files(undo)
        print(json.dumps(out, indent=1))
        print("REPRODUCED" if rep else "NOT-REPRODUCED")
        return 1 if rep else 0
    finally:
        lrv.cleanup()


# -------------------------------------------------------------------------------------------------
def main():
    ap = argparse.ArgumentParser()
    ap.add_argument("prop")
    ap.add_argument("--tier", default=os.environ.get("VERIF_TIER", "quick"))
    ap.add_argument("--only", default=None)
    ap.add_argument("--keep", action="store_true")
    ap.add_argument("--workers", type=int, default=int(os.environ.get("LRV_WORKERS", "8")))
    ap.add_argument("--replay", default=None)
    ap.add_argument("--no-evidence", action="store_true")
    a = ap.parse_args()
    prop, tier = a.prop, a.tier
    if a.replay:
        sys.exit(cmd_replay(prop, a.replay))
    seed = int(os.environ.get("VERIF_SEED", "0") or 0)
    lrv.install_signal_handlers()
    t0 = time.time()
    if prop == "C13":
        import c13gen
        c13gen.generate(c13gen.CHIPS)   # Rust side of the byte specification, regenerated on every run
    files, allh = lrv.discover()
    hs = [h for h in allh if prop in h.props and (tier == "thorough" or h.tier == "quick")]
    if a.only:
        hs = [h for h in hs if re.search(a.only, h.uid)]
    import engines
    extra = engines.jobs_for(prop, tier)
    if not hs and not extra:
        print("no harness registered for", prop)
        sys.exit(2)
    logdir = os.path.join(lrv.SCRATCH_ROOT, "lrv-logs-%s-%d" % (prop, os.getpid()))
    shutil.rmtree(logdir, ignore_errors=True)
    os.makedirs(logdir)
    # seed only permutes scheduling order
    if seed:
        import random
        random.Random(seed).shuffle(hs)
    groups = partition(hs, a.workers)
    workers = [Worker(i, prop, b, g, files, tier, logdir) for i, (b, g) in enumerate(groups)]
    known = lrv.load_known()
    status = 0
    lines, hres, samples = [], [], []
    n_checks = n_replays = n_viol = 0
    solver_time = 0.0
    known_hit = []
    try:
        for w in workers:
            w.start()
        extra_results = [j(logdir) for j in extra]   # E2/E3 engines run in the main thread meanwhile
        for w in workers:
            w.join()
        for w in workers:
            for h in w.hs:
                r = w.results.get(h.id)
                verdict, reason = lrv.classify(r)
                if w.error and r is None:
                    reason = w.error
                entry = h.brief()
                entry.update(verdict=verdict, reason=reason,
                             cbmc_checks=r["checks"] if r else 0,
                             covers=("%d/%d" % (r["covers_sat"], r["covers_total"])) if r else "0/0",
                             solver_time_s=r["time"] if r else None)
                if r:
                    n_checks += r["checks"]
                    solver_time += r["time"] or 0.0
                if verdict == "violated":
                    real = [c for c in r["failed"] if "unwinding assertion" not in c["desc"]]
                    # assertions tagged "Cxx:" / "Cxx/Cyy:" belong to those properties only; untagged
                    # failures (panics, overflow, index checks) count for every property of the harness
                    def mine(c):
                        m = re.match(r"^((?:C\d\d/?)+):", c["desc"])
                        return (not m) or (prop in m.group(1).split("/"))
                    other = [c for c in real if not mine(c)]
                    real = [c for c in real if mine(c)]
                    if other:
                        entry["other_property_failures"] = sorted(set(c["desc"] for c in other))
                    if not real:
                        entry["verdict"] = "held"
                        entry["reason"] = "assertions of this property hold (assertions tagged for other properties fail, see other_property_failures)"
                        hres.append(entry)
                        continue
                    unknown = []
                    for c in real:
                        e = lrv.match_known(known, prop, h.id, c)
                        if e:
                            if e["id"] not in [k["id"] for k in known_hit]:
                                known_hit.append(e)
                        else:
                            unknown.append(c)
                    if not unknown:
                        entry["verdict"] = "known-finding"
                    else:
                        # replay natively before reporting
                        # stage 1: playback test from the sliced formula (cheap); stage 2, only
                        # when that did not reproduce: Kani's own unsliced playback
                        rep, out, rpath, tests, glog = False, "", None, [], None
                        is_gen = os.path.basename(h.file).startswith("c13_") and h.file.endswith("_gen.rs")
                        if n_viol >= 2:
                            # two counterexamples of this run have already been reproduced
                            # natively: the verdict is settled, further replays (minutes each)
                            # are skipped and the harness is listed as failing unreplayed
                            entry["verdict"] = "violated-not-replayed"
                            entry["reason"] += " | replay skipped: two counterexamples of this run already reproduced natively"
                            lines.append("  harness %s also fails (solver verdict, replay skipped): %s" % (h.uid, "; ".join(
                                "%s @ %s" % (c["desc"], c["loc"]) for c in unknown)[:600]))
                            hres.append(entry)
                            continue
                        for sliced in ([False] if is_gen else [True, False]):
                            tests, glog = generate_playback(w, h, tier, sliced)
                            if not tests:
                                continue
                            rep, out, rpath = native_playback(w, h, tests, prop)
                            n_replays += 1
                            if rep:
                                break
                            if sliced:
                                # values of nondeterministic arrays missing from the sliced trace?
                                rt = repair_tests(tests)
                                if rt:
                                    rep, out, rpath = native_playback(w, h, rt, prop)
                                    n_replays += 1
                                    if rep:
                                        break
                        if not tests and not rep:
                            entry["verdict"] = "inconclusive"
                            entry["reason"] += " | no concrete playback generated (see %s)" % glog
                            status = max(status, 2) if status != 1 else 1
                            lines.append("INCONCLUSIVE property=%s harness=%s: no concrete playback generated: %s" % (prop, h.uid, entry["reason"][:400]))
                        else:
                            entry["replay"] = out
                            if rep:
                                n_viol += 1
                                status = 1
                                lines.append("VIOLATION property=%s replay=%s" % (prop, rpath))
                                lines.append("  harness %s: %s" % (h.uid, "; ".join(
                                    "%s @ %s" % (c["desc"], c["loc"]) for c in unknown)[:1500]))
                            else:
                                entry["verdict"] = "inconclusive"
                                entry["reason"] += " | counterexample did not reproduce natively"
                                status = max(status, 2) if status != 1 else 1
                                lines.append("INCONCLUSIVE property=%s harness=%s: counterexample did not reproduce natively: %s" % (prop, h.uid, entry["reason"][:400]))
                elif verdict == "inconclusive":
                    if status != 1:
                        status = 2
                    lines.append("INCONCLUSIVE property=%s harness=%s: %s" % (prop, h.uid, reason[:600]))
                hres.append(entry)
        for er in extra_results:
            hres.append(er["entry"])
            n_checks += er.get("queries", 0)
            solver_time += er.get("solver_time_s", 0.0)
            n_replays += er.get("validated", 0)
            if er["verdict"] == "violated":
                fnd = lrv.match_known(known, prop, er["entry"]["id"],
                                      dict(desc=er["entry"].get("reason", ""), loc=er["entry"]["id"]))
                if fnd:
                    if fnd["id"] not in [k["id"] for k in known_hit]:
                        known_hit.append(fnd)
                    er["entry"]["verdict"] = "known-finding"
                else:
                    status = 1
                    n_viol += 1
                    lines.append("VIOLATION property=%s replay=%s" % (prop, er["replay"]))
                    lines.append("  engine %s: %s" % (er["entry"]["id"], er["entry"].get("reason", "")[:1500]))
            elif er["verdict"] == "inconclusive":
                if status != 1:
                    status = 2
                lines.append("INCONCLUSIVE property=%s engine=%s: %s" % (
                    prop, er["entry"]["id"], er["entry"].get("reason", "")[:600]))
        for e in known_hit:
            lines.append("KNOWN-FINDING: property=%s %s" % (prop, e["what"]))
    finally:
        if not a.keep:
            lrv.cleanup()
    for ln in lines:
        print(ln)
    wall = time.time() - t0
    held = [e for e in hres if e["verdict"] == "held"]
    ev = dict(
        property_id=prop, tier=tier, seed=seed, level="model_checking", wall_s=round(wall, 1),
        violations=n_viol,
        assumptions=sorted(set(a_ for e in hres for a_ in e.get("assumes", []))) + [
            "Kani 0.68 / CBMC 6.11 / CaDiCaL, rustc (Kani's pinned toolchain) are trusted; Kani models the dev profile (overflow checks on)",
            "bounded model checking: every claim holds within the per-harness bounds listed under coverage.harnesses[].bounds; unwinding assertions are on, so a too-small loop bound is reported as inconclusive",
        ],
        coverage=dict(
            states=len(hres), transitions=n_checks,
            traces_validated_against_impl=n_replays,
            samples=[dict(harness=e["id"], bounds=e.get("bounds", ""), verdict=e["verdict"],
                          covers=e.get("covers")) for e in hres][:12] or ["none"],
            exhaustive=False,
            explanation="states = harness instances (each a SAT/SMT query set over all inputs within its bounds); "
                        "transitions = CBMC properties / SMT queries discharged; traces_validated = native replays and translator validations",
            harnesses=hres, harnesses_held=len(held), harnesses_total=len(hres),
            queries_discharged=n_checks, solver_time_s=round(solver_time, 1),
            functions_encoded=sorted(set(f for e in hres for f in e.get("encodes", []))),
            outside_the_claim=sorted(set(o for e in hres for o in e.get("outside", []))),
            known_findings_hit=[e["id"] for e in known_hit],
            source_hashes={f["anchor"]: lrv.file_hash(os.path.join(lrv.REPO, f["anchor"]))
                           for f in files if any(h.file == f["path"] for h in hs)},
            logs=logdir,
        ))
    if not a.no_evidence and not a.only:
        lrv.write_evidence(prop, ev)
    print("%s tier=%s: %d/%d harnesses held, %d checks, solver %.1fs, wall %.1fs -> exit %d" % (
        prop, tier, len(held), len(hres), n_checks, solver_time, wall, status))
    if status == 0 and not a.keep:
        shutil.rmtree(logdir, ignore_errors=True)
    sys.exit(status)


if __name__ == "__main__":
    main()
