#!/usr/bin/env python3
"""Regenerates /verif/MANIFEST.json from the table below (kept by hand) and validates it."""
import json, os, sys
V = os.path.dirname(os.path.dirname(os.path.abspath(__file__)))

KANI = "bounded model checking of the real Rust code with Kani 0.68 / CBMC 6.11 (SAT, CaDiCaL): symbolic inputs via kani::any(), unwinding assertions on, counterexamples replayed natively before a VIOLATION is printed"
NOTE = ("Trusted base: rustc + Kani + CBMC + CaDiCaL (and z3/cvc5 where named). Claims are bounded: they hold for every input inside the "
        "per-harness bounds written to the evidence file, nothing is claimed outside them. Kani models the dev profile (overflow checks on). ")
UF = "AES-128/AES-CMAC of the external aes/cmac crates are modelled as uninterpreted functions with a call log (/verif/model/default_crypto.rs); the primitives themselves are outside the claim. "

# property -> (claimed?, level text, technique, extra note, design ref)
P = {
 "C01": ("Every byte of built Join/Data frames equals an independent LoRaWAN 1.0.x reference for all field values within the size bounds; refusals are exact.", KANI + "; crypto as logged uninterpreted functions", UF, "3/C01"),
 "C02": ("MIC acceptance, structural decoding and every accessor equal an independent reference decoder for every byte string up to 255 B; decryption (key by FPort, counter reconstruction, plaintext) and JoinAccept decoding for frames up to 40 B; failed checked decoding leaves the buffer untouched; decrypting twice restores the ciphertext.", KANI + "; crypto as logged uninterpreted functions", UF, "3/C02"),
 "C03": ("All frame parsers, view accessors and the six MAC-command iterators are panic-free and terminating on every byte string within the length bounds.", KANI, "", "3/C03"),
 "C04": ("No panic / no non-termination of the MAC, region and front-end code on any received bytes or authentic command field values, one inductive step from an arbitrary invariant-satisfying state.", KANI + "; inductive step over an explicit representation invariant; RNG as nondeterministic / enumerating stub", UF, "3/C04"),
 "C05": ("Downlink acceptance is exactly 'authentic under the reconstructed 32-bit counter and fresh', for all counter pairs and all frames within the size bound. Front-end half: both device front-ends hand the MAC the parameters (maximum size) of the window the frame was received in.", KANI + "; crypto as logged uninterpreted functions", UF, "3/C05"),
 "C06": ("Uplink counter use and advancement: one-step facts of the MAC (counter on the wire / in MIC and keystream blocks, advance by exactly one or SessionExpired at 0xFFFFFFFF) plus fault-position-symbolic runs of both front-ends from an arbitrary counter: a frame handed to the radio has consumed its counter, or session expiry has been reported, whenever the device accepts the next send; with the non-default multicast feature also for the answer uplink the async device transmits itself (quick) and for multicast downlinks ending a transaction (thorough). Class C: rxc_listen and listening between the windows (futures::select decided both ways) consume one counter per accepted downlink and report expiry instead of wrapping; certification-feature answer uplinks consume their counter.", KANI + "; radio fault position symbolic; MAC contract stubs in front-end harnesses (installed in the source for the native replay)", UF, "3/C06, 9.11"),
 "C07": ("A frame answered with NoUpdate leaves session, configuration and region state bit-identical (1-safety frame condition implying the 2-safety twin property). Front-ends: a frame the MAC does not accept keeps the window / the Class C listening going with nothing else changed, also while a Class C device waits for its join windows; certification-feature build of the handle_rx step.", KANI + "; frame condition on an arbitrary symbolic pre-state", UF, "3/C07"),
 "C08": ("MAC command answers and effects equal an executable reference of LoRaWAN 1.0.x section 5 for every payload value of the enumerated CID sequences, per region.", KANI + "; CID sequence concrete, all payload bytes symbolic", UF, "3/C08"),
 "C09": ("Every TX configuration produced from an invariant-satisfying channel-plan state is on an enabled in-band channel (independent RP002 band and TXPower tables per region) with legal DR/power, for every RNG stream; selection terminates; quick tier EU868/US915 plus per-region tables and the AU915 join, thorough tier every region.", KANI + "; inductive invariant + nondeterministic/enumerating RNG stubs", "", "3/C09"),
 "C10": ("RX1/RX2 frequency, data rate and delay equal the regional reference tables for all DR x offset x override values in every region; window timing (delay + TX end - lead time, RX2 one second later) and the binding of window parameters to the uplink checked for both front-ends for all inputs in range. Class C: continuous listening between and after the windows uses the RX2 parameters (between_windows / window_complete / rxc_listen, one call each); async join windows at 5 s / 6 s.", KANI, "", "3/C10"),
 "C11": ("JoinRequest bytes and the Join-Accept handling (session derivation, counters, settings application) equal the reference for all JoinAccept contents. Async join procedure: joined iff the MAC saw a valid JoinAccept, 'no join accept' iff both windows closed without one, a frame that is not a JoinAccept never ends the attempt.", KANI + "; crypto as logged uninterpreted functions", UF, "3/C11"),
 "C12": ("One-step refinement of FCtrl bits and ADR back-off against an executable reference model for all counter values, data rates and regions. set_adr(false) restarts the count and changes nothing else (both front-ends); ABP/restored sessions start from the given state.", KANI + "; one inductive step against a reference model", UF, "3/C12"),
 "C13": ("For every operation of a generated byte specification (24 SX126x operations incl. SX1261/SX1262/STM32WL variants; 16 SX1276 and 13 SX1272 operations) the driver's SPI traffic equals what Semtech's SWL2001 reference C code produces for every parameter value: SX126x byte for byte on the wire, SX127x by the register-file / FIFO outcome from arbitrary prior register contents (the drivers factor register accesses differently from the reference); PLL word kernels of SX126x and SX127x equal the reference kernels for every frequency 137-1020 MHz. Quick tier: the operations with few register accesses; thorough tier: all (SX1276 modulation parameters, IRQ/start flows). One recorded difference (F-C13-2).", KANI + " on lora-phy + CBMC 6.11 directly on the SWL2001 C sources (both sides against one generated specification, lib/c13gen.py); PLL word: z3 5.1 + cvc5 on SMT-LIB translations of the rustc MIR (mir2smt) and of clang's LLVM IR of the C kernel (ll2smt), both validated against the compiled functions; counterexamples of generated harnesses are rebuilt as native tests from the CBMC trace", "SX127x operations outside the specification (reception flow, CAD completion, RSSI) and the LR1110 are outside the claim. ", "9.5, 9.10"),
 "C14": ("One API call of LoRa<ModelChip> from an arbitrary state inside the driver/chip coupling invariant, with up to two faults at symbolic chip-call positions and a symbolic IRQ script, stays inside the invariant (also when the call fails), never commands a sleeping chip without wake-up, never starts TX/RX/CAD with something unprogrammed since the last cold start, leaves chip and driver in standby after a failed or timed-out operation; wrong-mode calls are refused without chip commands.", KANI + "; inductive step over a trait-level chip model (invariant asserted after faulted calls too)", "The chip model assumes the chip is awake while an interrupt is processed. ", "3/C14, 9.12"),
 "C15": ("The LDRO decision of the airtime calculator and of every driver equals 2^SF/BW >= 16.38 ms for all 80 (SF,BW) pairs; the bit the chip is left with after modulation and packet parameters equals the decision (SX126x command byte; SX1276/SX1272 on a register-file chip model with arbitrary prior contents).", KANI, "", "3/C15"),
 "C16": ("time_on_air_us equals the exact Semtech formula, never overflows and is monotone in the payload length over the complete input space (42e6 cases in one SAT query each).", KANI, "", "3/C16"),
 "C17": ("Programmed PLL word / PA settings / symbol timeout / RSSI-SNR conversions decode to the request for all argument values; the LoRaWAN adapter's RX timeout covers 12.25 symbols plus the requested delay for all 80 (SF,BW) pairs and delays up to 1000 ms.", "z3 + cvc5 on an SMT-LIB translation of the rustc MIR of the PLL kernels (mir2smt), " + KANI + " for the rest", "", "3/C17"),
 "C18": ("Packet fetch never overruns: for all reported lengths/offsets/status and the listed buffer sizes the result is Ok(n<=buf) with exactly the chip bytes, or Err; no panic.", KANI + "; SPI mock answering arbitrary bytes", "", "3/C18"),
 "C19": ("Builder->parser round trip for every command that has a builder in the LoRaWAN MAC, multicast remote-setup and certification sets with all field values symbolic; out-of-range values refused or truncated without panic or spill; text forms round-trip for all values.", KANI, "", "3/C19"),
 "C20": ("Session serde round trip field by field for an arbitrary Session via a schema-driven serde back end; malformed value streams give Err or a panic-free session. set_session/new_with_session/get_session hand the session over unchanged in every field.", KANI + "; schema-driven serde back end written in the harness", "serde_json text layer is outside the claim. ", "3/C20"),
}

def main():
    claimed = [l.strip() for l in open(os.path.join(V, "bin", "claimed.txt")) if l.strip() and not l.startswith("#")]
    na_reasons = {}
    p = os.path.join(V, "bin", "not_applicable.json")
    if os.path.exists(p):
        na_reasons = json.load(open(p))
    checks, na = [], []
    for pid in sorted(P):
        text, tech, note, ref = P[pid]
        if pid in claimed:
            checks.append(dict(
                property_id=pid,
                quick_cmd="python3 /verif/bin/check.py %s --tier quick" % pid,
                thorough_cmd="python3 /verif/bin/check.py %s --tier thorough" % pid,
                evidence_file="/verif/evidence/%s.json" % pid,
                replay_cmd_template="python3 /verif/bin/check.py %s --replay {path}" % pid,
                engine="lrv",
                level_claimed=dict(category="model_checking", text=text, design_ref="DESIGN.md section " + ref),
                level_note=NOTE + note,
                technique=tech))
        else:
            na.append(dict(property_id=pid, reason=na_reasons.get(pid, "check not built yet in this session (work in progress); no claim is made")))
    m = dict(
        version=1,
        setup_cmd="python3 /verif/bin/setup.py",
        hooks=dict(guard="kani (cfg set only by cargo-kani; harness modules are overlaid onto a scratch copy of /repo, nothing is committed to /repo)",
                   enable="python3 /verif/bin/check.py <id> copies /repo's working tree to a scratch dir, appends #[cfg(kani)] mod lines and runs cargo kani there",
                   baseline_off_cmd="cd /repo && cargo test --workspace --no-fail-fast --offline",
                   source_commits=[], add_only=True),
        engines=[dict(name="lrv", path="/verif/bin/check.py", serves_properties=claimed,
                      kind_free_text="Kani/CBMC overlay runner + mir2smt (z3/cvc5) + CBMC on SWL2001 C; native replay of counterexamples")],
        checks=checks,
        notes="See /verif/DESIGN.md. exit 0 held / 1 VIOLATION (reproduced natively) / 2 inconclusive.",
        not_applicable=na)
    json.dump(m, open(os.path.join(V, "MANIFEST.json"), "w"), indent=1)
    try:
        import jsonschema
        jsonschema.validate(m, json.load(open("/root/.vp/MANIFEST.schema.json")))
        print("MANIFEST.json valid;", len(checks), "claimed,", len(na), "not claimed")
    except ImportError:
        print("jsonschema not available; written unvalidated")

if __name__ == "__main__":
    main()
