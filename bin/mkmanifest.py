#!/usr/bin/env python3
"""Regenerates /verif/MANIFEST.json from the table below (kept by hand) and validates it."""
import json, os, sys
V = os.path.dirname(os.path.dirname(os.path.abspath(__file__)))

KANI = "bounded model checking of the real Rust code with Kani 0.68 / CBMC 6.11 (SAT, CaDiCaL): symbolic inputs via kani::any(), unwinding assertions on, counterexamples replayed natively before a VIOLATION is printed"
NOTE = ("Trusted base: rustc + Kani + CBMC + CaDiCaL (and z3/cvc5 where named). Claims are bounded: they hold for every input inside the "
        "per-harness bounds written to the evidence file, nothing is claimed outside them. Kani models the dev profile (overflow checks on). ")
UF = "AES-128/AES-CMAC of the external aes/cmac crates are modelled as uninterpreted functions with a call log (/verif/model/default_crypto.rs); the primitives themselves are outside the claim. "

# property -> (claimed?, level text, technique, extra note, design ref)
P = {
 "C01": ("Every byte of built Join/Data frames equals an independent LoRaWAN 1.0.x reference for all field values within the size bounds; refusals are exact.", KANI + "; crypto as logged uninterpreted functions", UF, "3/C01"),
 "C02": ("MIC acceptance and decoding equal the reference for every byte string up to 255 B (structure) / bounded payloads (crypto paths); failed checked decoding leaves the buffer untouched.", KANI + "; crypto as logged uninterpreted functions", UF, "3/C02"),
 "C03": ("All frame parsers, view accessors and the six MAC-command iterators are panic-free and terminating on every byte string within the length bounds.", KANI, "", "3/C03"),
 "C04": ("No panic / no non-termination of the MAC, region and front-end code on any received bytes or authentic command field values, one inductive step from an arbitrary invariant-satisfying state.", KANI + "; inductive step over an explicit representation invariant; RNG as nondeterministic / enumerating stub", UF, "3/C04"),
 "C05": ("Downlink acceptance is exactly 'authentic under the reconstructed 32-bit counter and fresh', for all counter pairs and all frames within the size bound.", KANI + "; crypto as logged uninterpreted functions", UF, "3/C05"),
 "C06": ("Uplink counter use and advancement: one-step facts of the MAC plus fault-position-symbolic runs of both front-ends.", KANI + "; radio fault position symbolic; MAC contract stubs in front-end harnesses", UF, "3/C06"),
 "C07": ("A frame answered with NoUpdate leaves session, configuration and region state bit-identical (1-safety frame condition implying the 2-safety twin property).", KANI + "; frame condition on an arbitrary symbolic pre-state", UF, "3/C07"),
 "C08": ("MAC command answers and effects equal an executable reference of LoRaWAN 1.0.x section 5 for every payload value of the enumerated CID sequences, per region.", KANI + "; CID sequence concrete, all payload bytes symbolic", UF, "3/C08"),
 "C09": ("Every TX configuration produced from an invariant-satisfying channel-plan state is on an enabled in-band channel with legal DR/power, for every RNG stream; selection terminates.", KANI + "; inductive invariant + nondeterministic/enumerating RNG stubs", "", "3/C09"),
 "C10": ("RX1/RX2 frequency, data rate and delay equal the regional reference tables for all DR x offset x override values; timing arithmetic checked for all inputs in range.", KANI, "", "3/C10"),
 "C11": ("JoinRequest bytes and the Join-Accept handling (session derivation, counters, settings application) equal the reference for all JoinAccept contents.", KANI + "; crypto as logged uninterpreted functions", UF, "3/C11"),
 "C12": ("One-step refinement of FCtrl bits and ADR back-off against an executable reference model for all counter values, data rates and regions.", KANI + "; one inductive step against a reference model", UF, "3/C12"),
 "C13": ("Driver SPI bytes equal a shared byte specification which CBMC proves equal to Semtech's SWL2001 C driver, for all parameter values.", KANI + " on lora-phy + CBMC on the SWL2001 C sources (both sides against one byte specification); PLL word by z3/cvc5 on the MIR translation", "", "3/C13"),
 "C14": ("One API step of LoRa<ModelChip> from an arbitrary coupled state keeps driver/chip state coupled; wrong-mode calls refused without chip commands.", KANI + "; inductive step over a trait-level chip model with symbolic fault index and IRQ script", "", "3/C14"),
 "C15": ("The LDRO decision of the airtime calculator and of every driver equals 2^SF/BW >= 16.38 ms for all 80 (SF,BW) pairs, and the programmed bit equals the decision.", KANI, "", "3/C15"),
 "C16": ("time_on_air_us equals the exact Semtech formula, never overflows and is monotone in the payload length over the complete input space (42e6 cases in one SAT query each).", KANI, "", "3/C16"),
 "C17": ("Programmed PLL word / PA settings / symbol timeout / RSSI-SNR conversions decode to the request for all argument values.", "z3 + cvc5 on an SMT-LIB translation of the rustc MIR of the PLL kernels (mir2smt), " + KANI + " for the rest", "", "3/C17"),
 "C18": ("Packet fetch never overruns: for all reported lengths/offsets/status and the listed buffer sizes the result is Ok(n<=buf) with exactly the chip bytes, or Err; no panic.", KANI + "; SPI mock answering arbitrary bytes", "", "3/C18"),
 "C19": ("Builder->parser round trip for every command of the command sets with all field values symbolic; text forms round-trip for all values.", KANI, "", "3/C19"),
 "C20": ("Session serde round trip field by field for an arbitrary Session via a schema-driven serde back end; malformed value streams give Err or a panic-free session.", KANI + "; schema-driven serde back end written in the harness", "serde_json text layer is outside the claim. ", "3/C20"),
}

def main():
    claimed = [l.strip() for l in open(os.path.join(V, "bin", "claimed.txt")) if l.strip() and not l.startswith("#")]
    na_reasons = {}
    p = os.path.join(V, "bin", "not_applicable.json")
    if os.path.exists(p):
        na_reasons = json.load(open(p))
    checks, na = [], []
    for pid in sorted(P):
        text, tech, note, ref = P[pid]
        if pid in claimed:
            checks.append(dict(
                property_id=pid,
                quick_cmd="python3 /verif/bin/check.py %s --tier quick" % pid,
                thorough_cmd="python3 /verif/bin/check.py %s --tier thorough" % pid,
                evidence_file="/verif/evidence/%s.json" % pid,
                replay_cmd_template="python3 /verif/bin/check.py %s --replay {path}" % pid,
                engine="lrv",
                level_claimed=dict(category="model_checking", text=text, design_ref="DESIGN.md section " + ref),
                level_note=NOTE + note,
                technique=tech))
        else:
            na.append(dict(property_id=pid, reason=na_reasons.get(pid, "check not built yet in this session (work in progress); no claim is made")))
    m = dict(
        version=1,
        setup_cmd="python3 /verif/bin/setup.py",
        hooks=dict(guard="kani (cfg set only by cargo-kani; harness modules are overlaid onto a scratch copy of /repo, nothing is committed to /repo)",
                   enable="python3 /verif/bin/check.py <id> copies /repo's working tree to a scratch dir, appends #[cfg(kani)] mod lines and runs cargo kani there",
                   baseline_off_cmd="cd /repo && cargo test --workspace --no-fail-fast --offline",
                   source_commits=[], add_only=True),
        engines=[dict(name="lrv", path="/verif/bin/check.py", serves_properties=claimed,
                      kind_free_text="Kani/CBMC overlay runner + mir2smt (z3/cvc5) + CBMC on SWL2001 C; native replay of counterexamples")],
        checks=checks,
        notes="See /verif/DESIGN.md. exit 0 held / 1 VIOLATION (reproduced natively) / 2 inconclusive.",
        not_applicable=na)
    json.dump(m, open(os.path.join(V, "MANIFEST.json"), "w"), indent=1)
    try:
        import jsonschema
        jsonschema.validate(m, json.load(open("/root/.vp/MANIFEST.schema.json")))
        print("MANIFEST.json valid;", len(checks), "claimed,", len(na), "not claimed")
    except ImportError:
        print("jsonschema not available; written unvalidated")

if __name__ == "__main__":
    main()
