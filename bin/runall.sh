#!/bin/bash
# runall.sh [tier] [props...] : run the registered checks one after the other, summarise exit codes
TIER=${1:-quick}; shift
PROPS=${@:-$(cat "$(dirname "$0")/claimed.txt")}
OUT=/var/tmp/runall-$TIER.log
: > $OUT
for p in $PROPS; do
  t0=$(date +%s)
  python3 "$(dirname "$0")/check.py" $p --tier $TIER > /var/tmp/runall-$p.out 2>&1
  rc=$?
  t1=$(date +%s)
  # the thorough tier's evidence is kept aside: evidence/<id>.json is rewritten by every run
  if [ "$TIER" = thorough ]; then mkdir -p "$(dirname "$0")/../evidence-thorough"; cp "$(dirname "$0")/../evidence/$p.json" "$(dirname "$0")/../evidence-thorough/$p.json" 2>/dev/null; fi
  echo "$p rc=$rc wall=$((t1-t0))s $(tail -n 1 /var/tmp/runall-$p.out | cut -c1-150)" >> $OUT
done
echo DONE >> $OUT
