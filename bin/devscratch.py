#!/usr/bin/env python3
"""devscratch.py <build> : make an overlaid scratch copy for interactive experiments; prints its path and the kani command."""
import sys, os
sys.path.insert(0, os.path.join(os.path.dirname(os.path.abspath(__file__)), "..", "lib"))
import lrv
sys.path.insert(0, os.path.dirname(os.path.abspath(__file__)))
from check import pkg_dirs_for
build = sys.argv[1]
b = lrv.BUILDS[build]
files, _ = lrv.discover()
s = lrv.make_scratch("dev-" + build)
fs = lrv.files_for_build(files, b, pkg_dirs_for(b["package"]))
lrv.apply_overlay(s, fs, b["swap"], b.get("edits", ()))
print(s)
print("cd %s/src && CARGO_NET_OFFLINE=true %s" % (s, " ".join(lrv.kani_cmd(build, ["HARNESS"], s + "/target", 300))))
