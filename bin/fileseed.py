#!/usr/bin/env python3
"""fileseed.py <tmp-id> <final-id> <caught_by> <history...> : turn seeded/<tmp-id> (left by seedcheck.sh) into
seeded/<final-id> with a meta.json built from the agent's meta and the seedcheck log."""
import sys, os, json, re, shutil
V = os.path.dirname(os.path.dirname(os.path.abspath(__file__)))
tmp, final, caught, history = sys.argv[1], sys.argv[2], sys.argv[3], " ".join(sys.argv[4:])
src, dst = os.path.join(V, "seeded", tmp), os.path.join(V, "seeded", final)
if src != dst:
    if os.path.exists(dst):
        shutil.rmtree(dst)
    os.rename(src, dst)
a = json.load(open(os.path.join(dst, "agent_meta.json")))
log = open("/var/tmp/seedcheck-%s.log" % tmp).read()
prop = re.match(r"(C\d\d)", final).group(1)
suite_ok = "FAILED" not in log.split("== demo with change")[0]
m = re.findall(r"rc=(\d+)", log)
rc = re.search(r"check rc=(\d+)", log)
meta = {
    "id": final, "property": prop, "summary": a.get("summary", ""), "needs": a.get("needs", ""),
    "files": a.get("files", []),
    "produced_by": "independent sub-agent given only the property text (plus one-line summaries of earlier seeds, to avoid duplicates) and its own worktree",
    "confirmed": {
        "suite_passes_with_change": suite_ok,
        "demo_fails_with_change": len(m) > 0 and m[0] != "0",
        "demo_passes_without_change": len(m) > 1 and m[1] == "0",
        "how": "bin/seedcheck.sh in the agent's scratch worktree: cargo test --workspace --offline --no-fail-fast (all existing tests ok), demo/run.sh with the patch (fails) and after git apply -R (passes)",
    },
    "detection": {
        "check": "python3 /verif/bin/check.py %s --tier quick (run with LRV_REPO=<worktree with the patch>)" % prop,
        "caught_by": caught, "history": history, "exit_code": int(rc.group(1)) if rc else None,
    },
}
json.dump(meta, open(os.path.join(dst, "meta.json"), "w"), indent=1)
print(final, meta["confirmed"], meta["detection"]["exit_code"])
