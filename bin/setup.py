#!/usr/bin/env python3
"""setup_cmd: checks that the offline tool chain the checks need is present; builds nothing that is kept."""
import subprocess, sys, os, py_compile, glob
os.environ["CARGO_NET_OFFLINE"] = "true"
ok = True
for cmd in (["cargo", "kani", "--version"], ["cbmc", "--version"], ["z3", "--version"], ["cvc5", "--version"], ["rsync", "--version"]):
    try:
        out = subprocess.run(cmd, stdout=subprocess.PIPE, stderr=subprocess.STDOUT, timeout=120).stdout.decode().splitlines()[0]
        print("ok  ", " ".join(cmd), "->", out)
    except Exception as e:
        print("FAIL", " ".join(cmd), e); ok = False
V = os.path.dirname(os.path.dirname(os.path.abspath(__file__)))
for f in glob.glob(os.path.join(V, "bin", "*.py")) + glob.glob(os.path.join(V, "lib", "*.py")):
    py_compile.compile(f, doraise=True)
os.makedirs(os.path.join(V, "evidence"), exist_ok=True)
sys.exit(0 if ok else 1)
